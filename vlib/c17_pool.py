"""Parent side of the C17 watchdog: one long-lived worker per process, restarted on timeout/death
and every RECYCLE cases; a canary directory whose files must never be opened by a conversion.

run(doc_template) substitutes the canary placeholders, sends the document to the worker and returns
the worker's reply, or a synthetic reply with status "hard-timeout" / "died".
"""
from __future__ import annotations

import atexit
import json
import os
import select
import shutil
import signal
import subprocess
import sys
import tempfile
import time

SOFT_S = 10.0  # per-case CPU-time limit (ITIMER_PROF) inside the worker
HARD_S = 60.0  # wall clock: parent kills the worker after this long without a reply
MEM_LIMIT = 2 << 30  # RLIMIT_AS of the worker
RECYCLE = 400  # fresh worker every so many cases (the library keeps per-document caches alive)

CANARY_TEXT = "C17CANARYx9f3aTEXT"
CANARY_ID = "C17CANARYx9f3aID"
CANARY_COORD = "73317331"
CANARY_DTD = "C17CANARYx9f3aDTD"
TOKENS = (CANARY_TEXT, CANARY_ID, CANARY_COORD, CANARY_DTD)

CANARY_FILES = {
    # external parsed entity: text plus an element, so that a leak shows as text or as geometry
    "canary.xml": (
        f'{CANARY_TEXT}<path xmlns="http://www.w3.org/2000/svg" id="{CANARY_ID}" '
        f'd="M{CANARY_COORD},1 L{CANARY_COORD},9 L5,9 Z"/>'
    ),
    # external DTD subset / external parameter entity
    "canary.dtd": f'<!ENTITY fromdtd "{CANARY_DTD}">\n<!ATTLIST svg data-c17 CDATA "{CANARY_DTD}">\n',
    "canary.txt": CANARY_TEXT,
}

_state = {"dir": None, "proc": None, "served": 0, "inotify": None, "pid": None}


def canary_dir() -> str:
    if _state["dir"] is None or _state["pid"] != os.getpid():
        d = tempfile.mkdtemp(prefix="c17-canary-")  # mode 0700
        for fn, content in CANARY_FILES.items():
            with open(os.path.join(d, fn), "w") as f:
                f.write(content)
        _state.update(dir=d, pid=os.getpid(), proc=None, served=0)
        atexit.register(_cleanup)
    return _state["dir"]


def _cleanup():
    if _state["pid"] != os.getpid():
        return
    _kill()
    d = _state["dir"]
    if d and os.path.isdir(d):
        shutil.rmtree(d, ignore_errors=True)
    _state["dir"] = None


def _kill():
    p = _state["proc"]
    _state["proc"] = None
    if p is None:
        return
    try:
        p.stdin.close()
    except Exception:
        pass
    try:
        p.kill()
    except Exception:
        pass
    try:
        p.wait(timeout=10)
    except Exception:
        pass
    try:
        p.stdout.close()
    except Exception:
        pass


def _readline(p, timeout):
    """One reply line from the worker (bytes) or None on timeout, b'' on EOF."""
    fd = p.stdout.fileno()
    buf = _state.setdefault("buf", b"")
    t_end = time.monotonic() + timeout
    while b"\n" not in buf:
        left = t_end - time.monotonic()
        if left <= 0:
            _state["buf"] = buf
            return None
        r, _, _ = select.select([fd], [], [], min(left, 1.0))
        if not r:
            continue
        chunk = os.read(fd, 1 << 20)
        if not chunk:
            _state["buf"] = b""
            return b""
        buf += chunk
    line, _, rest = buf.partition(b"\n")
    _state["buf"] = rest
    return line


def _spawn():
    d = canary_dir()
    _state["buf"] = b""
    p = subprocess.Popen(
        [sys.executable, "-m", "vlib.c17_worker", d, str(MEM_LIMIT)],
        stdin=subprocess.PIPE,
        stdout=subprocess.PIPE,
        stderr=subprocess.DEVNULL,
        cwd=d,
        bufsize=0,
    )
    _state["proc"] = p
    _state["served"] = 0
    line = _readline(p, 120.0)
    if not line:
        _kill()
        raise RuntimeError("C17 worker did not start")
    hello = json.loads(line)
    _state["inotify"] = bool(hello.get("inotify"))
    return p


def inotify_active():
    return _state["inotify"]


def substitute(doc_template: str) -> str:
    d = canary_dir()
    return doc_template.replace("@@DIR@@", d)


def run(doc_template: str, route: str = "topicosvg") -> dict:
    p = _state["proc"]
    if p is None or _state["pid"] != os.getpid() or p.poll() is not None or _state["served"] >= RECYCLE:
        _kill()
        p = _spawn()
    doc = substitute(doc_template)
    _state["served"] += 1
    t0 = time.monotonic()
    try:
        p.stdin.write((json.dumps({"doc": doc, "soft": SOFT_S, "route": route}) + "\n").encode())
        p.stdin.flush()
    except (BrokenPipeError, OSError):
        rc = p.poll()
        _kill()
        return {"status": "died", "returncode": rc, "elapsed": time.monotonic() - t0, "opened": []}
    line = _readline(p, HARD_S)
    if line is None:
        _kill()
        return {"status": "hard-timeout", "elapsed": time.monotonic() - t0, "opened": []}
    if line == b"":
        try:
            rc = p.wait(timeout=10)
        except Exception:
            rc = None
        _kill()
        return {"status": "died", "returncode": rc, "elapsed": time.monotonic() - t0, "opened": []}
    rep = json.loads(line)
    if rep["status"] in ("timeout", "memory"):
        _kill()  # do not trust the interpreter state after an asynchronous exception / failed allocation
    return rep


def describe_signal(rc):
    if rc is None:
        return "unknown exit"
    if rc < 0:
        try:
            return f"killed by {signal.Signals(-rc).name}"
        except ValueError:
            return f"killed by signal {-rc}"
    return f"exit status {rc}"
