"""C16 document generator: batches of small SVG documents that SHARE building blocks.

History dependence (module-level caches, counters, memoised per-element state) can only show when a later
document hits a key left behind by an earlier one, so the documents of one batch are assembled from one
common pool of primitives / paints / gradients / transforms, with different surroundings (viewBox, wrappers,
inherited attributes), and some documents are 'variants' of an earlier one (same body, other viewBox).
Everything is drawn from Hypothesis strategies; the result is plain text.
"""
from __future__ import annotations

from hypothesis import strategies as st

SVGNS = "http://www.w3.org/2000/svg"
XLINK = "http://www.w3.org/1999/xlink"

VIEWBOXES = ["0 0 24 24", "0 0 128 128", "0 0 512 512", "0 0 1000 1000", "0 0 100 100", "-10 -10 120 100", "0 0 12.5 30", "0,0,64,32"]
COLORS = ["red", "blue", "#00f", "#123456", "black", "green", "#abc", "rgb(10,20,30)", "currentColor"]

PATHS = [
    "M8,8 L16,8 L16,16",
    "M2 2 L20 2 L20 20 Z",
    "M10,10 h30 v30 h-30 z",
    "M5 5 C 10 0 20 0 25 5 S 40 10 45 5",
    "M10 80 Q 52.5 10, 95 80 T 180 80",
    "M10,30 A20,20 0 0 1 50,30 A20,20 0 0 1 90,30 Q90,60 50,90 Q10,60 10,30 z",
    "M4 4h16v16h-16z M8 8v8h8v-8z",
    "m1 1 l10 0 0 10 -10 0 z m20 0 l5 5 -5 5z",
    "M12 2 L2 22 L22 22 Z",
    "M0 0 L100 0 L100 100 L0 100 Z M25 25 L75 25 L75 75 L25 75 Z",
    "M3 12 a9 9 0 1 0 18 0 a9 9 0 1 0 -18 0",
]
TRANSFORMS = [
    "translate(10,5)",
    "translate(3)",
    "scale(2)",
    "scale(1.5,0.5)",
    "rotate(30)",
    "rotate(45 10 10)",
    "matrix(1 0 0 1 5 5)",
    "matrix(0.8 0.2 -0.2 0.8 3 4)",
    "skewX(10)",
    "translate(5,5) scale(2)",
    "scale(-1,1) translate(-24,0)",
    "translate(0.5 0.25)",
    "translate(1 2)",
    "scale(2 3)",
]


def _num():
    return st.one_of(st.integers(0, 40), st.integers(0, 400).map(lambda v: v / 10), st.sampled_from([0, 1, 2, 5, 10, 12, 24, 50, 100]))


def _fmt(v):
    if isinstance(v, float) and v.is_integer():
        return str(int(v))
    return str(v)


def attrs_to_str(attrs):
    seen = set()
    out = []
    for k, v in attrs:
        if k in seen:  # XML forbids duplicate attributes; first spelling wins
            continue
        seen.add(k)
        out.append(f' {k}="{v}"')
    return "".join(out)


@st.composite
def primitive(draw):
    """(tag, [(attr, value)...]) geometry only."""
    kind = draw(st.sampled_from(["path", "path", "path", "rect", "rect", "circle", "ellipse", "line", "polyline", "polygon"]))
    n = lambda: _fmt(draw(_num()))
    pos = lambda: _fmt(draw(_num()) + 1)
    if kind == "path":
        if draw(st.integers(0, 3)) == 0:
            pts = [(draw(st.integers(0, 40)), draw(st.integers(0, 40))) for _ in range(draw(st.integers(2, 5)))]
            d = "M" + " L".join(f"{x},{y}" for x, y in pts) + draw(st.sampled_from(["", " Z", "z"]))
        else:
            d = draw(st.sampled_from(PATHS))
        return ("path", [("d", d)])
    if kind == "rect":
        a = [("x", n()), ("y", n()), ("width", pos()), ("height", pos())]
        r = draw(st.integers(0, 3))
        if r == 1:
            a.append(("rx", pos()))
        elif r == 2:
            a += [("rx", pos()), ("ry", pos())]
        return ("rect", a)
    if kind == "circle":
        return ("circle", [("cx", n()), ("cy", n()), ("r", pos())])
    if kind == "ellipse":
        return ("ellipse", [("cx", n()), ("cy", n()), ("rx", pos()), ("ry", pos())])
    if kind == "line":
        return ("line", [("x1", n()), ("y1", n()), ("x2", n()), ("y2", n())])
    pts = " ".join(f"{draw(st.integers(0, 40))},{draw(st.integers(0, 40))}" for _ in range(draw(st.integers(2, 5))))
    return (kind, [("points", pts)])


@st.composite
def paint(draw, ngrad):
    """List of (attr, value) presentation attributes."""
    a = []
    f = draw(st.integers(0, 5))
    if f == 0:
        a.append(("fill", "none"))
    elif f in (1, 2) and ngrad:
        a.append(("fill", f"url(#g{draw(st.integers(0, ngrad - 1))})"))
    elif f in (3, 4):
        a.append(("fill", draw(st.sampled_from(COLORS))))
    if draw(st.integers(0, 4)) == 0:
        a.append(("fill-opacity", draw(st.sampled_from(["0.5", "0.25", "1", "0"]))))
    if draw(st.integers(0, 4)) == 0:
        a.append(("fill-rule", draw(st.sampled_from(["evenodd", "nonzero"]))))
    if draw(st.integers(0, 9)) < 6:
        a.append(("stroke", draw(st.sampled_from(COLORS + ["#333"]))))
        a.append(("stroke-width", draw(st.sampled_from(["1", "2", "3", "0.5", "4.5", "10"]))))
        if draw(st.integers(0, 3)) > 0:
            a.append(("stroke-linecap", draw(st.sampled_from(["round", "round", "square", "butt"]))))
        if draw(st.integers(0, 3)) > 0:
            a.append(("stroke-linejoin", draw(st.sampled_from(["round", "round", "bevel", "miter"]))))
        if draw(st.integers(0, 5)) == 0:
            a.append(("stroke-miterlimit", draw(st.sampled_from(["1", "2", "10"]))))
        if draw(st.integers(0, 4)) == 0:
            a.append(("stroke-dasharray", draw(st.sampled_from(["4 2", "5,3,2", "1", "3 1 2 1"]))))
            if draw(st.booleans()):
                a.append(("stroke-dashoffset", draw(st.sampled_from(["1", "2.5"]))))
        if draw(st.integers(0, 5)) == 0:
            a.append(("stroke-opacity", draw(st.sampled_from(["0.5", "0.8"]))))
    if draw(st.integers(0, 5)) == 0:
        a.append(("opacity", draw(st.sampled_from(["0.5", "0.3", "1", "0"]))))
    return a


def _maybe_style(draw, attrs):
    """Write some of the presentation attributes through style="..." (same meaning for picosvg)."""
    if not attrs or draw(st.integers(0, 3)) != 0:
        return list(attrs)
    k = draw(st.integers(1, len(attrs)))
    keep, styled = attrs[k:], attrs[:k]
    sep = draw(st.sampled_from([";", "; ", " ; "]))
    return list(keep) + [("style", sep.join(f"{a}:{v}" for a, v in styled))]


@st.composite
def gradient(draw, k, ngrad):
    """Source text of gradient g<k>."""
    gid = f"g{k}"
    if draw(st.integers(0, 11)) == 0:
        gid = f"g{draw(st.integers(0, max(0, ngrad - 1)))}_{draw(st.integers(0, 1))}"  # looks like a generated id
    linear = draw(st.booleans())
    a = [("id", gid)]
    pct = draw(st.integers(0, 2)) == 0
    v = (lambda: draw(st.sampled_from(["0%", "25%", "50%", "100%"]))) if pct else (lambda: _fmt(draw(st.sampled_from([0, 0.25, 0.5, 1, 5, 12, 24, 100]))))
    if linear:
        for name in ("x1", "y1", "x2", "y2"):
            if draw(st.integers(0, 3)) > 0:
                a.append((name, v()))
    else:
        for name in ("cx", "cy", "r"):
            if draw(st.integers(0, 3)) > 0:
                a.append((name, v()))
        if draw(st.integers(0, 3)) == 0:
            a += [("fx", v()), ("fy", v())]
    if draw(st.integers(0, 2)) == 0:
        a.append(("gradientUnits", draw(st.sampled_from(["userSpaceOnUse", "userSpaceOnUse", "objectBoundingBox"]))))
    if draw(st.integers(0, 2)) == 0:
        a.append(("gradientTransform", draw(st.sampled_from(TRANSFORMS))))
    if draw(st.integers(0, 5)) == 0:
        a.append(("spreadMethod", draw(st.sampled_from(["pad", "reflect", "repeat"]))))
    tag = "linearGradient" if linear else "radialGradient"
    if k > 0 and draw(st.integers(0, 3)) == 0:
        a.append(("xlink:href", f"#g{draw(st.integers(0, k - 1))}"))
        if draw(st.booleans()):
            return f"<{tag}{attrs_to_str(a)}/>"
    stops = []
    for i in range(draw(st.integers(1, 3))):
        sa = [("offset", draw(st.sampled_from(["0", "0.5", "1", "50%", "100%"])))]
        col = draw(st.sampled_from(COLORS))
        if draw(st.integers(0, 2)) == 0:
            sa.append(("style", f"stop-color:{col};stop-opacity:{draw(st.sampled_from(['1', '0.5']))}"))
        else:
            sa.append(("stop-color", col))
            if draw(st.integers(0, 2)) == 0:
                sa.append(("stop-opacity", draw(st.sampled_from(["0.5", "0"]))))
        stops.append(f"<stop{attrs_to_str(sa)}/>")
    return f"<{tag}{attrs_to_str(a)}>{''.join(stops)}</{tag}>"


TEXT_ATTRS = [
    ("font-size", "10"),
    ("font-family", "sans-serif"),
    ("font-weight", "bold"),
    ("text-anchor", "middle"),
    ("letter-spacing", "1"),
    ("dx", "2"),
    ("fill", "red"),
    ("stroke", "blue"),
    ("stroke-width", "2"),
    ("opacity", "0.5"),
    ("style", "fill:green;font-style:italic"),
]

GROUP_EXTRA = [("font-size", "12"), ("font-family", "serif"), ("letter-spacing", "1"), ("text-anchor", "middle"), ("class", "k"), ("font-weight", "bold"), ("word-spacing", "2")]

NOISE = [
    "<!-- a comment -->",
    "<title>t</title>",
    "<desc>some description</desc>",
    "<metadata><x:y xmlns:x='http://example.com/x'/></metadata>",
    '<sodipodi:namedview xmlns:sodipodi="http://sodipodi.sourceforge.net/DTD/sodipodi-0.dtd" id="nv" pagecolor="#fff"/>',
    "<?pi some data?>",
    '<symbol><path d="M0 0L1 1"/></symbol>',
    "<defs/>",
    "<g/>",
]


class _Doc:
    def __init__(self, draw, pool):
        self.draw = draw
        self.pool = pool
        self.ids = []  # ids of shapes/groups usable by <use>
        self.nid = 0
        self.clips = []
        self.has_text = False
        self.unknown = False

    def new_id(self):
        self.nid += 1
        return f"s{self.nid}"

    def shape(self):
        d = self.draw
        tag, geom = d(st.sampled_from(self.pool["prims"]))
        a = list(geom) + _maybe_style(d, d(st.sampled_from(self.pool["paints"])))
        if d(st.integers(0, 2)) == 0:
            i = self.new_id()
            a.insert(0, ("id", i))
            self.ids.append(i)
        if d(st.integers(0, 3)) == 0:
            a.append(("transform", d(st.sampled_from(self.pool["transforms"]))))
        if self.clips and d(st.integers(0, 7)) == 0:
            a.append(("clip-path", f"url(#{d(st.sampled_from(self.clips))})"))
        if d(st.integers(0, 11)) == 0:
            a.append(("class", "k"))
        return f"<{tag}{attrs_to_str(a)}/>"

    def text(self):
        d = self.draw
        self.has_text = True
        a = [("x", "5"), ("y", "20")]
        n = d(st.integers(0, 4))
        a += d(st.permutations(TEXT_ATTRS))[:n]
        inner = d(st.sampled_from(["Hi", "a &amp; b", "x"]))
        if d(st.booleans()):
            ta = d(st.permutations(TEXT_ATTRS))[: d(st.integers(0, 3))]
            inner += f"<tspan{attrs_to_str(ta)}>there</tspan>"
        return f"<text{attrs_to_str(a)}>{inner}</text>"

    def use(self):
        d = self.draw
        if not self.ids:
            return self.shape()
        a = [("xlink:href", "#" + d(st.sampled_from(self.ids)))]
        if d(st.booleans()):
            a += [("x", _fmt(d(_num()))), ("y", _fmt(d(_num())))]
        if d(st.integers(0, 2)) == 0:
            a.append(("transform", d(st.sampled_from(self.pool["transforms"]))))
        if d(st.integers(0, 2)) == 0:
            a += d(st.sampled_from(self.pool["paints"]))[:2]
        if d(st.integers(0, 5)) == 0:
            a.append(("opacity", "0.5"))
        return f"<use{attrs_to_str(a)}/>"

    def group(self, depth):
        d = self.draw
        a = []
        if d(st.integers(0, 3)) > 0:
            p = d(st.sampled_from(self.pool["paints"]))
            a += _maybe_style(d, p[: d(st.integers(1, max(1, len(p))))] if p else [])
        if d(st.integers(0, 2)) == 0:
            a.append(("transform", d(st.sampled_from(self.pool["transforms"]))))
        if d(st.integers(0, 4)) == 0:
            a.append(("opacity", d(st.sampled_from(["0.5", "0.9"]))))
        if self.clips and d(st.integers(0, 7)) == 0:
            a.append(("clip-path", f"url(#{d(st.sampled_from(self.clips))})"))
        if d(st.integers(0, 3)) == 0:
            # typography / unknown attributes on a group (the usual way text is styled); no inheritance rule exists for them
            a += d(st.permutations(GROUP_EXTRA))[: d(st.integers(2, 4))]
        gid = None
        if d(st.integers(0, 3)) == 0:
            gid = self.new_id()
            a.insert(0, ("id", gid))
        kids = "".join(self.node(depth + 1) for _ in range(d(st.integers(1, 3))))
        if gid:
            self.ids.append(gid)  # only usable after the group is closed (no self reference)
        return f"<g{attrs_to_str(a)}>{kids}</g>"

    def nested(self, depth):
        d = self.draw
        a = []
        if d(st.booleans()):
            a += [("x", _fmt(d(_num()))), ("y", _fmt(d(_num())))]
        if d(st.booleans()):
            a += [("width", _fmt(d(_num()) + 1)), ("height", _fmt(d(_num()) + 1))]
        if d(st.booleans()):
            a.append(("viewBox", d(st.sampled_from(VIEWBOXES))))
        if d(st.integers(0, 3)) == 0:
            a.append(("overflow", "visible"))
        if d(st.integers(0, 5)) == 0:
            a.append(("preserveAspectRatio", d(st.sampled_from(["none", "xMinYMax slice", "xMidYMid meet"]))))
        kids = "".join(self.node(depth + 1) for _ in range(d(st.integers(1, 2))))
        return f"<svg{attrs_to_str(a)}>{kids}</svg>"

    def node(self, depth):
        d = self.draw
        k = d(st.integers(0, 19))
        if k < 9 or depth >= 3:
            return self.shape()
        if k < 13:
            return self.group(depth)
        if k < 15:
            return self.use()
        if k < 17:
            return self.text()
        if k == 17:
            return self.nested(depth)
        if k == 18:
            return d(st.sampled_from(NOISE))
        self.unknown = True
        return d(st.sampled_from(['<image width="1" height="1" xlink:href="a.png"/>', "<style>.k{fill:red}</style>", '<foo bar="1"/>', '<rect width="1" height="1" donkey="1"/>']))


@st.composite
def pool(draw):
    ngrad = draw(st.integers(1, 3))
    return {
        "prims": draw(st.lists(primitive(), min_size=2, max_size=5)),
        "paints": draw(st.lists(paint(ngrad), min_size=2, max_size=4)),
        "grads": [draw(gradient(k, ngrad)) for k in range(ngrad)],
        "transforms": draw(st.lists(st.sampled_from(TRANSFORMS), min_size=1, max_size=3)),
    }


def _root_attrs(draw):
    a = [("xmlns", SVGNS), ("xmlns:xlink", XLINK)]
    k = draw(st.integers(0, 9))
    if k < 8:
        a.append(("viewBox", draw(st.sampled_from(VIEWBOXES))))
    if k >= 7:
        a += [("width", draw(st.sampled_from(["24", "128", "300"]))), ("height", draw(st.sampled_from(["24", "128", "150"])))]
    # k == 9: neither viewBox nor ... (width/height only);  no size at all is drawn rarely below
    if draw(st.integers(0, 24)) == 0:
        a = a[:2]
    if draw(st.integers(0, 3)) == 0:
        a += draw(st.sampled_from([[("fill", "none")], [("fill", "red"), ("stroke", "black")], [("stroke-linecap", "round"), ("stroke-linejoin", "round")], [("style", "fill:blue;stroke-width:2")], [("opacity", "0.5")], [("id", "root")]]))
    return a


@st.composite
def body(draw, pl):
    doc = _Doc(draw, pl)
    parts = []
    # defs: gradients (all of the pool or a subset) and clip paths
    defs = []
    grads = [g for g in pl["grads"] if draw(st.integers(0, 11)) > 0]
    defs += grads
    for c in range(draw(st.sampled_from([0, 0, 1, 1, 2]))):
        cid = f"c{c}"
        kids = ""
        for _ in range(draw(st.integers(1, 2))):
            tag, geom = draw(st.sampled_from(pl["prims"]))
            if draw(st.integers(0, 2)) == 0:
                # a clip child whose region depends on the clip rule in force (nested contours of the same direction)
                tag, geom = "path", [("d", draw(st.sampled_from(["M0 0 L100 0 L100 100 L0 100 Z M25 25 L75 25 L75 75 L25 75 Z", "M2 2h40v40h-40z M12 12h40v40h-40z"])))]
            kids += f"<{tag}{attrs_to_str(geom)}/>"
        ca = [("id", cid)]
        if draw(st.integers(0, 2)) == 0:
            ca.append(("clip-rule", draw(st.sampled_from(["evenodd", "evenodd", "nonzero"]))))
        if draw(st.integers(0, 5)) == 0:
            ca.append(("transform", draw(st.sampled_from(pl["transforms"]))))
        defs.append(f"<clipPath{attrs_to_str(ca)}>{kids}</clipPath>")
        doc.clips.append(cid)
    defs_s = f"<defs>{''.join(defs)}</defs>" if draw(st.integers(0, 5)) > 0 else "".join(defs)
    nodes = [doc.node(0) for _ in range(draw(st.integers(1, 5)))]
    if draw(st.integers(0, 4)) == 0:
        parts = nodes + [defs_s]
    else:
        parts = [defs_s] + nodes
    return {"body": "".join(parts), "has_text": doc.has_text, "unknown": doc.unknown}


def _opts(draw, has_text, unknown):
    o = {}
    if draw(st.integers(0, 3)) == 0:
        o["ndigits"] = draw(st.sampled_from([0, 1, 2, 5, 8]))
    if (has_text and draw(st.integers(0, 9)) > 0) or draw(st.integers(0, 9)) == 0:
        o["allow_text"] = True
    if (unknown and draw(st.integers(0, 2)) > 0) or draw(st.integers(0, 9)) == 0:
        o["drop_unsupported"] = True
    if draw(st.integers(0, 3)) == 0:
        o["pretty"] = True
    if draw(st.integers(0, 5)) == 0:
        o["clip"] = True
    return o


_ALT_VALUES = {
    "stroke-dashoffset": ["1", "2.5", "0.5", "4"],
    "stroke-width": ["1", "2", "3", "0.5", "4.5", "10"],
    "stroke-linecap": ["round", "square", "butt"],
    "stroke-linejoin": ["round", "bevel", "miter"],
    "stroke-miterlimit": ["1", "2", "10"],
    "stroke-dasharray": ["4 2", "5,3,2", "1", "3 1 2 1"],
    "fill-opacity": ["0.5", "0.25", "1"],
    "fill-rule": ["evenodd", "nonzero"],
}


def _one_value_off(draw, svg):
    import re

    occ = [m for m in re.finditer(r' (' + "|".join(_ALT_VALUES) + r')="([^"]*)"', svg)]
    dash = [m for m in occ if m.group(1) == "stroke-dasharray"]
    if dash and draw(st.booleans()):
        m = dash[draw(st.integers(0, len(dash) - 1))]
        tail = svg[m.end():m.end() + 200].split(">")[0]
        if "stroke-dashoffset" not in tail:
            return svg[: m.end()] + f' stroke-dashoffset="{draw(st.sampled_from(_ALT_VALUES["stroke-dashoffset"]))}"' + svg[m.end():]
    # a transform whose spelling differs from the original by blanks only - but blanks separate numbers, so
    # "translate(1 2)" and "translate(12)", "rotate(45 10 10)" and "rotate(4510 10)" are different transforms
    tr = [m for m in re.finditer(r' transform="([^"]*\d) +(\d[^"]*)"', svg)]
    if tr and (not occ or draw(st.integers(0, 2)) == 0):
        m = tr[draw(st.integers(0, len(tr) - 1))]
        return svg[: m.end(1)] + svg[m.start(2):]
    if not occ:
        return None
    m = occ[draw(st.integers(0, len(occ) - 1))]
    others = [v for v in _ALT_VALUES[m.group(1)] if v != m.group(2)]
    return svg[: m.start(2)] + draw(st.sampled_from(others)) + svg[m.end(2):]


@st.composite
def documents(draw, min_docs=4, max_docs=8):
    """List of {"name", "svg", "opts"} sharing one pool."""
    pl = draw(pool())
    n = draw(st.integers(min_docs, max_docs))
    bodies = []
    docs = []
    for i in range(n):
        if bodies and draw(st.integers(0, 9)) < 4:
            j = draw(st.integers(0, len(bodies) - 1))
            b = bodies[j]
            kind = f"variant-of-{j}"
        else:
            b = draw(body(pl))
            kind = "new"
        bodies.append(b)
        root = _root_attrs(draw)
        svg = f"<svg{attrs_to_str(root)}>{b['body']}</svg>"
        if draw(st.integers(0, 11)) == 0:
            svg = '<?xml version="1.0" encoding="UTF-8"?>\n' + svg
        docs.append({"name": f"gen{i}({kind})", "svg": svg, "opts": _opts(draw, b["has_text"], b["unknown"])})
        if draw(st.integers(0, 3)) == 0:
            # near-duplicate: the same document (same viewBox, same options) with ONE presentation value altered - what a
            # result remembered from an earlier document under an incomplete key would get wrong
            alt = _one_value_off(draw, svg)
            if alt is not None:
                docs.append({"name": f"gen{i}({kind})-one-value-off", "svg": alt, "opts": dict(docs[-1]["opts"])})
    if draw(st.integers(0, 2)) == 0:
        # a document whose default namespace is not SVG and whose SVG elements are prefixed: what a
        # converter does with the un-namespaced attributes must not depend on what it saw before
        vb = draw(st.sampled_from(VIEWBOXES))
        pref = draw(st.sampled_from(["s", "svg"]))
        other = draw(st.sampled_from(["http://www.w3.org/1999/xhtml", "urn:example:host"]))
        psvg = (
            f'<{pref}:svg xmlns:{pref}="{SVGNS}" xmlns="{other}" viewBox="{vb}">'
            f'<{pref}:rect x="2" y="3" width="10" height="8" fill="red"/><{pref}:path d="{draw(st.sampled_from(PATHS))}" fill="blue"/></{pref}:svg>'
        )
        docs.insert(draw(st.integers(0, len(docs))), {"name": "prefixed-svg-namespace", "svg": psvg, "opts": {}})
    return docs
