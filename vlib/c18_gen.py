"""Hypothesis strategies for C18: degenerate geometry x paint combinations.

Everything is JSON-able.  A *geometry* is {"kind": tag, "g": {geometry attributes as strings}, "labels": [...]}.
A *paint* is {"a": {presentation attributes}, "s": {style declarations}} (style wins over attribute).

Exactness: the frame size E is a power of two and "grid" coordinates are integer multiples of E/128, i.e. dyadic
rationals that are exact in binary32 and binary64 and print finitely; collinear / coincident / symmetric constructions
use grid coordinates only, so they are *exactly* degenerate for every reader.
"""
from __future__ import annotations

import json
import math
import os

from hypothesis import strategies as st

FRAMES = [1, 16, 128, 128, 1024]
COLOURS = ["red", "#00f", "black", "rgb(255,165,0)", "#00ff00", "purple"]


def num(x: float) -> str:
    x = float(x)
    if x == int(x) and abs(x) < 1e15:
        return str(int(x))
    return repr(x)


class Frame:
    def __init__(self, E, ox, oy):
        self.E, self.ox, self.oy = E, ox, oy
        self.u = E / 128.0

    def pt(self, i, j):
        return (self.ox + i * self.u, self.oy + j * self.u)

    def viewbox(self):
        return f"{num(self.ox)} {num(self.oy)} {num(self.E)} {num(self.E)}"


@st.composite
def frame(draw, offsets=True):
    E = draw(st.sampled_from(FRAMES))
    if offsets:
        ox = draw(st.sampled_from([0, 0, 0, E / 2, -E, 3 * E]))
        oy = draw(st.sampled_from([0, 0, 0, E / 4, -E / 2, 2 * E]))
    else:
        ox = oy = 0
    return Frame(float(E), float(ox), float(oy))


def _gi(lo=8, hi=120):
    return st.integers(lo, hi)


def _P(draw, fr):
    return fr.pt(draw(_gi()), draw(_gi()))


def _xy(p):
    return f"{num(p[0])},{num(p[1])}"


def _poly_d(pts, closed=True):
    d = "M" + _xy(pts[0]) + "".join(" L" + _xy(p) for p in pts[1:])
    return d + (" Z" if closed else "")


def _refusers():
    p = os.path.join(os.path.dirname(__file__), "props", "c13_refusers.json")
    try:
        return json.load(open(p))["paths"]
    except Exception:
        return []


_REFUSERS = _refusers()

PIECES = [
    "poly", "poly", "open-poly", "curvy", "collinear", "collinear", "hv", "hv", "seg", "seg", "move", "mz", "zero",
    "twice-same", "twice-same", "twice-opp", "retrace", "zdraw", "zdraw", "sliver", "sliver", "tiny", "tiny", "bowtie",
    "bowtie", "fig8", "near-collinear",
]


@st.composite
def piece(draw, fr: Frame, kinds=None):
    """-> (path data fragment beginning with an absolute M, label)"""
    k = draw(st.sampled_from(kinds or PIECES))
    E, u = fr.E, fr.u
    if k in ("poly", "open-poly"):
        n = draw(st.integers(3, 5))
        pts = [_P(draw, fr) for _ in range(n)]
        return _poly_d(pts, closed=(k == "poly")), k
    if k == "curvy":
        a, b, c, e = (_P(draw, fr) for _ in range(4))
        form = draw(st.sampled_from(["Q", "C", "A", "mix", "A-full"]))
        if form == "A-full":
            # the "whole circle with one arc" idiom: a large arc that ends a hair (2e-9, more than picosvg's own 1e-9
            # snap) from where it starts - a disc, not an empty path, at whatever coordinates it sits
            r = num(draw(st.integers(10, 40)) * u)
            d = f"M{_xy(a)} A{r} {r} 0 1 {draw(st.integers(0, 1))} {num(a[0])},{a[1] - 2e-9!r}" + draw(st.sampled_from([" Z", ""]))
        elif form == "Q":
            d = f"M{_xy(a)} Q{_xy(b)} {_xy(c)} Q{_xy(e)} {_xy(a)} Z"
        elif form == "C":
            d = f"M{_xy(a)} C{_xy(b)} {_xy(c)} {_xy(e)} L{_xy(a)} Z"
        elif form == "A":
            r = num(draw(st.integers(10, 60)) * u)
            d = f"M{_xy(a)} A{r} {r} 0 {draw(st.integers(0, 1))} {draw(st.integers(0, 1))} {_xy(b)} Z"
        else:
            d = f"M{_xy(a)} L{_xy(b)} Q{_xy(c)} {_xy(e)} Z"
        return d, k
    if k in ("collinear", "hv"):
        i0, j0 = draw(_gi(30, 90)), draw(_gi(30, 90))
        if k == "hv":
            di, dj = draw(st.sampled_from([(1, 0), (0, 1), (3, 0), (0, -2)]))
        else:
            di, dj = draw(st.sampled_from([(1, 1), (2, 1), (-1, 3), (3, -2), (1, -1), (2, 5)]))
        n = draw(st.integers(2, 4))
        ks = draw(st.lists(st.integers(-5, 5), min_size=n, max_size=n, unique=True))
        if draw(st.booleans()):
            ks = sorted(ks)
        pts = [fr.pt(i0 + t * di, j0 + t * dj) for t in ks]
        closed = draw(st.booleans())
        if k == "hv" and draw(st.booleans()):
            # spell it with H / V
            d = "M" + _xy(pts[0])
            for p in pts[1:]:
                d += (" H" + num(p[0])) if dj == 0 else (" V" + num(p[1]))
            return d + (" Z" if closed else ""), k
        return _poly_d(pts, closed), k
    if k == "seg":
        a, b = _P(draw, fr), _P(draw, fr)
        if a == b:
            b = (a[0] + u, a[1] + u)
        return _poly_d([a, b], closed=draw(st.booleans())), k
    if k == "move":
        return "M" + _xy(_P(draw, fr)), k
    if k == "mz":
        return "M" + _xy(_P(draw, fr)) + " " + draw(st.sampled_from(["Z", "z"])), k
    if k == "zero":
        a = _P(draw, fr)
        tail = draw(st.sampled_from([" L" + _xy(a), " l0,0", " h0", " L" + _xy(a) + " Z", " l0,0 z", " Q" + _xy(a) + " " + _xy(a)]))
        return "M" + _xy(a) + tail, k
    if k in ("twice-same", "twice-opp", "retrace"):
        n = draw(st.integers(3, 4))
        pts = [_P(draw, fr) for _ in range(n)]
        if k == "retrace":
            return _poly_d(pts + pts, True), k
        second = pts if k == "twice-same" else [pts[0]] + pts[1:][::-1]
        if k == "twice-same" and draw(st.booleans()):
            # same contour, different starting vertex
            second = pts[1:] + pts[:1]
        return _poly_d(pts, True) + " " + _poly_d(second, True), k
    if k == "zdraw":
        a, b, c, e, f = (_P(draw, fr) for _ in range(5))
        form = draw(st.sampled_from(["area-then-area", "flat-then-area", "area-then-open", "area-then-flat"]))
        if form == "area-then-area":
            d = f"M{_xy(a)} L{_xy(b)} L{_xy(c)} Z L{_xy(e)} L{_xy(f)} Z"
        elif form == "flat-then-area":
            d = f"M{_xy(a)} L{_xy(b)} Z L{_xy(e)} L{_xy(f)} Z"
        elif form == "area-then-open":
            d = f"M{_xy(a)} L{_xy(b)} L{_xy(c)} z l{num(4 * u)},{num(-7 * u)} l{num(9 * u)},{num(2 * u)}"
        else:
            d = f"M{_xy(a)} L{_xy(b)} L{_xy(c)} Z L{_xy(e)}"
        return d, k
    if k == "sliver":
        a, b = _P(draw, fr), _P(draw, fr)
        L = math.hypot(b[0] - a[0], b[1] - a[1])
        if L < 8 * u:
            b = (a[0] + 40 * u, a[1] + 13 * u)
            L = math.hypot(b[0] - a[0], b[1] - a[1])
        h = E * 10.0 ** (-draw(st.integers(4, 16)) / 2.0)  # 1e-2 .. 1e-8 of the frame
        t = draw(st.integers(0, 10)) / 10.0
        nx, ny = -(b[1] - a[1]) / L, (b[0] - a[0]) / L
        c = (a[0] + (b[0] - a[0]) * t + nx * h, a[1] + (b[1] - a[1]) * t + ny * h)
        return _poly_d([a, b, c], True), k
    if k == "tiny":
        a = _P(draw, fr)
        s = E * 2.0 ** (-draw(st.integers(7, 22)))
        form = draw(st.sampled_from(["sq", "tri", "abs", "tri-ccw", "sq-ccw"]))
        if form == "tri-ccw":
            d = f"M{_xy(a)} l0,{num(s)} l{num(s)},0 z"
        elif form == "sq-ccw":
            d = f"M{_xy(a)} v{num(s)} h{num(s)} v{num(-s)} z"
        elif form == "sq":
            d = f"M{_xy(a)} h{num(s)} v{num(s)} h{num(-s)} z"
        elif form == "tri":
            d = f"M{_xy(a)} l{num(s)},0 l0,{num(s)} z"
        else:
            d = _poly_d([a, (a[0] + s, a[1]), (a[0] + s, a[1] + s)], True)
        return d, k
    if k == "bowtie":
        i, j = draw(_gi(10, 60)), draw(_gi(10, 60))
        w, h = draw(st.integers(2, 50)), draw(st.integers(2, 50))
        sym = draw(st.sampled_from([True, True, False]))
        p0, p1, p2, p3 = fr.pt(i, j), fr.pt(i + w, j + h), fr.pt(i + w, j), fr.pt(i, j + h)
        if not sym:
            p3 = fr.pt(i, j + h + draw(st.integers(1, 20)))
        order = draw(st.sampled_from([(0, 1, 2, 3), (2, 3, 0, 1), (1, 0, 3, 2), (3, 2, 1, 0)]))
        pts = [(p0, p1, p2, p3)[q] for q in order]
        return _poly_d(pts, draw(st.sampled_from([True, True, False]))), k + ("-sym" if sym else "-asym")
    if k == "fig8":
        cx, cy = fr.pt(draw(_gi(40, 80)), draw(_gi(40, 80)))
        r = draw(st.integers(4, 30)) * u
        q = lambda dx, dy: _xy((cx + dx * r, cy + dy * r))
        if draw(st.booleans()):
            d = f"M{q(0, 0)} C{q(.5, -1)} {q(1, -1)} {q(1, 0)} C{q(1, 1)} {q(.5, 1)} {q(0, 0)} C{q(-.5, -1)} {q(-1, -1)} {q(-1, 0)} C{q(-1, 1)} {q(-.5, 1)} {q(0, 0)} Z"
        else:
            d = f"M{q(0, 0)} Q{q(1, -1)} {q(1, 0)} Q{q(1, 1)} {q(0, 0)} Q{q(-1, -1)} {q(-1, 0)} Q{q(-1, 1)} {q(0, 0)} Z"
        return d, k
    if k == "near-collinear":
        # decimal coordinates: collinear on paper, not exactly in binary floating point
        x, y = draw(st.integers(1, 9)) / 10.0 * E + fr.ox, draw(st.integers(1, 9)) / 10.0 * E + fr.oy
        dx, dy = draw(st.sampled_from([(0.1, 0.1), (0.1, 0.2), (0.3, 0.1), (0.7, -0.3)]))
        pts = [(x + t * dx * E / 10, y + t * dy * E / 10) for t in (0, 1, 2, 3)]
        return _poly_d(pts, True), k
    raise AssertionError(k)


@st.composite
def path_geometry(draw, fr: Frame, max_pieces=3, allow_refuser=True):
    if allow_refuser and _REFUSERS and draw(st.integers(0, 24)) == 0:
        base = draw(st.sampled_from(_REFUSERS))
        sc = fr.E / 64.0
        d = " ".join(c + ",".join(num(fr.ox + v * sc if j % 2 == 0 else fr.oy + v * sc) for j, v in enumerate(a)) for c, a in base)
        return {"kind": "path", "g": {"d": d}, "labels": ["refuser"]}
    n = draw(st.sampled_from([1, 1, 2, 2, 3][: max(1, min(5, 2 * max_pieces - 1))]))
    frags, labels = [], []
    for _ in range(n):
        d, lab = draw(piece(fr))
        frags.append(d)
        labels.append(lab)
    return {"kind": "path", "g": {"d": " ".join(frags)}, "labels": labels}


@st.composite
def basic_geometry(draw, fr: Frame):
    k = draw(st.sampled_from(["rect", "rect", "circle", "ellipse", "line", "line", "polygon", "polygon", "polyline", "polyline"]))
    E, u = fr.E, fr.u
    tinyv = lambda: E * 2.0 ** (-draw(st.integers(7, 22)))
    sizev = lambda: draw(st.integers(4, 60)) * u
    anysz = lambda: draw(st.sampled_from(["zero", "tiny", "normal", "normal"]))
    val = lambda c: 0.0 if c == "zero" else tinyv() if c == "tiny" else sizev()
    a = _P(draw, fr)
    if k == "rect":
        cw, ch = anysz(), anysz()
        g = {"x": num(a[0]), "y": num(a[1]), "width": num(val(cw)), "height": num(val(ch))}
        if draw(st.integers(0, 3)) == 0:
            g["rx"] = num(sizev())
        return {"kind": k, "g": g, "labels": [f"rect-w-{cw}", f"rect-h-{ch}"]}
    if k == "circle":
        c = anysz()
        return {"kind": k, "g": {"cx": num(a[0]), "cy": num(a[1]), "r": num(val(c))}, "labels": [f"circle-r-{c}"]}
    if k == "ellipse":
        c1, c2 = anysz(), anysz()
        return {"kind": k, "g": {"cx": num(a[0]), "cy": num(a[1]), "rx": num(val(c1)), "ry": num(val(c2))}, "labels": [f"ellipse-{c1}-{c2}"]}
    if k == "line":
        form = draw(st.sampled_from(["zero", "h", "v", "diag", "tiny"]))
        if form == "zero":
            b = a
        elif form == "h":
            b = (a[0] + sizev(), a[1])
        elif form == "v":
            b = (a[0], a[1] - sizev())
        elif form == "tiny":
            b = (a[0] + tinyv(), a[1] + tinyv())
        else:
            b = _P(draw, fr)
        return {"kind": k, "g": {"x1": num(a[0]), "y1": num(a[1]), "x2": num(b[0]), "y2": num(b[1])}, "labels": [f"line-{form}"]}
    form = draw(st.sampled_from(["collinear", "hv", "one", "two", "normal", "bowtie", "empty", "tiny", "retrace"]))
    if form == "empty":
        pts = []
    elif form == "one":
        pts = [a]
    elif form == "two":
        pts = [a, _P(draw, fr)]
    elif form in ("collinear", "hv"):
        i0, j0 = draw(_gi(30, 90)), draw(_gi(30, 90))
        di, dj = draw(st.sampled_from([(1, 0), (0, 1)])) if form == "hv" else draw(st.sampled_from([(1, 1), (2, 1), (-1, 3), (3, -2)]))
        ks = draw(st.lists(st.integers(-5, 5), min_size=3, max_size=4, unique=True))
        pts = [fr.pt(i0 + t * di, j0 + t * dj) for t in ks]
    elif form == "bowtie":
        i, j, w, h = draw(_gi(10, 60)), draw(_gi(10, 60)), draw(st.integers(2, 50)), draw(st.integers(2, 50))
        pts = [fr.pt(i, j), fr.pt(i + w, j + h), fr.pt(i + w, j), fr.pt(i, j + h)]
    elif form == "tiny":
        s = tinyv()
        pts = [a, (a[0] + s, a[1]), (a[0] + s, a[1] + s)]
    elif form == "retrace":
        b, c = _P(draw, fr), _P(draw, fr)
        pts = [a, b, c, a, b, c]
    else:
        pts = [_P(draw, fr) for _ in range(draw(st.integers(3, 5)))]
    sep = draw(st.sampled_from([" ", ", "]))
    return {"kind": k, "g": {"points": sep.join(_xy(p) for p in pts)}, "labels": [f"{k}-{form}"]}


# ------------------------------------------------------------------ paint


def _put(draw, a, s, prop, values):
    v = draw(st.sampled_from(values))
    how = draw(st.integers(0, 5))
    if how == 0 and len(values) > 1:
        other = draw(st.sampled_from([x for x in values if x != v]))
        a[prop] = other
        s[prop] = v
    elif how % 2:
        a[prop] = v
    else:
        s[prop] = v


_OPAC = ["0", "0.0", "0.5", "1", "0.25", "1.0"]


@st.composite
def paint(draw, widths=("0", "0.0", "1", "2", "0.5", "3.5"), fill_rule=True, display=True):
    """-> {"a": {...}, "s": {...}}"""
    a, s = {}, {}
    mode = draw(st.sampled_from(["default", "stroke-only", "stroke-only", "fill+stroke", "random", "random", "random"]))
    widths = list(widths)
    if mode == "stroke-only":
        _put(draw, a, s, "fill", ["none"])
        _put(draw, a, s, "stroke", COLOURS)
        if draw(st.booleans()):
            _put(draw, a, s, "stroke-width", widths)
    elif mode == "fill+stroke":
        _put(draw, a, s, "stroke", COLOURS)
        if draw(st.booleans()):
            _put(draw, a, s, "stroke-width", widths)
        if draw(st.booleans()):
            _put(draw, a, s, "fill", COLOURS)
    elif mode == "random":
        props = draw(st.lists(st.sampled_from(["fill", "stroke", "stroke", "stroke-width", "opacity", "fill-opacity", "stroke-opacity", "display"]), max_size=4, unique=True))
        for p in props:
            if p == "fill":
                _put(draw, a, s, "fill", COLOURS + ["none", "none"])
            elif p == "stroke":
                _put(draw, a, s, "stroke", COLOURS + ["none"])
            elif p == "stroke-width":
                _put(draw, a, s, "stroke-width", widths)
            elif p == "display":
                if display:
                    _put(draw, a, s, "display", ["none", "inline"])
            else:
                _put(draw, a, s, p, _OPAC)
    if ("stroke" in a or "stroke" in s) and draw(st.integers(0, 3)) == 0:
        # dashes: ordinary ones with any cap; the dotted-line idiom (zero-length dashes) only with round / square caps,
        # where every dash is painted as a dot
        dash = draw(st.sampled_from(["2 3", "0 6", "0,4", "0 0.5 0 2", "1"]))
        _put(draw, a, s, "stroke-dasharray", [dash])
        if dash.split(",")[0].split()[0] == "0" or draw(st.booleans()):
            _put(draw, a, s, "stroke-linecap", ["round", "square"])
    if fill_rule and draw(st.integers(0, 2)) == 0:
        _put(draw, a, s, "fill-rule", ["evenodd", "nonzero"])
    return {"a": a, "s": s}


# ------------------------------------------------------------------ cases


@st.composite
def shape_case(draw):
    fr = draw(frame())
    geo = draw(path_geometry(fr)) if draw(st.integers(0, 2)) else draw(basic_geometry(fr))
    p = draw(paint())
    return {"kind": geo["kind"], "g": geo["g"], "a": p["a"], "s": p["s"], "labels": geo["labels"]}


@st.composite
def subpaths_case(draw):
    fr = draw(frame())
    n = draw(st.sampled_from([1, 2, 2, 3, 3, 4]))
    frags, labels = [], []
    for _ in range(n):
        d, lab = draw(piece(fr))
        frags.append(d)
        labels.append(lab)
    E = fr.E
    widths = [num(E * 0.02), num(E * 0.05), num(E * 0.1), "0"]
    p = draw(paint(widths=widths, display=False))
    a, s = p["a"], p["s"]
    if draw(st.integers(0, 3)) == 0:
        a["stroke-linecap"] = draw(st.sampled_from(["butt", "round", "square"]))
    if draw(st.integers(0, 3)) == 0:
        a["stroke-linejoin"] = draw(st.sampled_from(["miter", "round", "bevel"]))
    if draw(st.integers(0, 5)) == 0:
        a["stroke-dasharray"] = f"{num(E * 0.06)} {num(E * 0.03)}"
    return {"d": " ".join(frags), "a": a, "s": s, "labels": labels, "frame": [fr.ox, fr.oy, E]}


def _node(tag, a=None, s=None, c=None):
    return {"tag": tag, "a": dict(a or {}), "s": dict(s or {}), "c": list(c or [])}


@st.composite
def doc_case(draw):
    from vlib.gen import docs

    fr = draw(frame(offsets=draw(st.booleans())))
    if fr.E < 16:
        # the engine's absolute contour-size threshold (known finding ENGINE-TINY-CONTOUR) is neutralised in the shape
        # subcheck; the render oracle cannot tell, so documents use frames in which tiny pieces stay above it
        fr = Frame(16.0, fr.ox * 16, fr.oy * 16)
    E = fr.E
    box = docs.Box(fr.ox, fr.oy, E, E)
    cfg = docs.Cfg(transforms=False, groups=False, use=False, nested=False, display=False, lines=True, max_leaves=4)
    widths = [num(E * 0.03), num(E * 0.06), num(E * 0.1), "0", "0.0"]
    feat = set()

    def leaf():
        kind = draw(st.sampled_from(["deg-path", "deg-path", "deg-basic", "normal"]))
        if kind == "normal":
            n = draw(docs.shape(cfg, box))
            n = _node(n["tag"], n["a"])
            feat.add("normal")
        else:
            geo = draw(path_geometry(fr, allow_refuser=False)) if kind == "deg-path" else draw(basic_geometry(fr))
            n = _node(geo["kind"], geo["g"])
            for lab in geo["labels"]:
                feat.add(lab)
        p = draw(paint(widths=widths))
        n["a"].update(p["a"])
        n["s"].update(p["s"])
        if "stroke-width" in p["a"] or "stroke-width" in p["s"]:
            feat.add("own-stroke-width")
        if p["s"]:
            feat.add("style-borne")
        if draw(st.integers(0, 7)) == 0:
            n["a"]["transform"] = draw(st.sampled_from([f"translate({num(E / 16)},{num(-E / 32)})", "scale(0.5)", f"rotate(30 {num(fr.ox + E / 2)} {num(fr.oy + E / 2)})", "scale(1,0)", "matrix(0 0 0 0 0 0)"]))
            feat.add("transform")
        return n

    body = []
    for _ in range(draw(st.integers(1, 4))):
        if draw(st.integers(0, 3)) == 0:
            g = _node("g")
            # fence: inheritable paint on groups via attributes only (picosvg copies an inherited style attribute
            # wholesale and a child's own style attribute replaces it: cascade matter, C05)
            p = draw(paint(widths=widths, fill_rule=True))
            g["a"].update(p["a"])
            g["a"].update(p["s"])
            for _ in range(draw(st.integers(1, 2))):
                g["c"].append(leaf())
            body.append(g)
            feat.add("group-inherited")
        else:
            body.append(leaf())
    if draw(st.integers(0, 2)) == 0:
        # twin: the same geometry text once more, with other paint (often unable to paint) - what a verdict
        # memoised per geometry, or state carried from one shape to the next, would get wrong
        import copy as _copy

        sites = [(body, i) for i, k in enumerate(body) if k["tag"] != "g"] + [(k["c"], j) for k in body if k["tag"] == "g" for j in range(len(k["c"]))]
        kids, i = sites[draw(st.integers(0, len(sites) - 1))]
        twin = _copy.deepcopy(kids[i])
        how = draw(st.sampled_from(["fresh-paint", "display-none", "opacity-0", "fill-none", "fill-opacity-0"]))
        if how == "fresh-paint":
            geo_keys = ("d", "points", "x", "y", "width", "height", "rx", "ry", "cx", "cy", "r", "x1", "y1", "x2", "y2", "transform")
            twin["a"] = {k: v for k, v in twin["a"].items() if k in geo_keys}
            twin["s"] = {}
            p2 = draw(paint(widths=widths))
            twin["a"].update(p2["a"])
            twin["s"].update(p2["s"])
        else:
            # everything as on the original, one hiding property on top
            prop, val = {"display-none": ("display", "none"), "opacity-0": ("opacity", "0"), "fill-none": ("fill", "none"), "fill-opacity-0": ("fill-opacity", "0")}[how]
            twin["s"].pop(prop, None)
            twin["a"][prop] = val
            if prop.startswith("fill"):
                twin["s"].pop("stroke", None)
                twin["a"]["stroke"] = "none"
        kids.insert(i + draw(st.integers(0, 1)), twin)
        feat.add("twin:" + how)
    root = _node("svg", {"viewBox": fr.viewbox()}, c=body)
    op = draw(st.sampled_from(["remove_unpainted_shapes", "remove_unpainted_shapes", "remove_empty_subpaths", "remove_empty_subpaths", "both"]))
    return {"svg": docs.serialize(root, root=True), "op": op, "feat": sorted(feat)}
