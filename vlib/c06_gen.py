"""Hypothesis generator of documents with gradient-filled shapes (property C06).

document() draws {"svg": text, "feat": [labels]}.  Structure: a pool of 1..5 linear/radial gradients in
which gradient i may reference (xlink:href) a gradient created before it (chains up to length 3, templates
shared by several users), written in a random permutation (so templates come before AND after their users),
inside a defs element at the front / at the end / split in two / directly under the root; a body of shapes,
groups (depth <= 3) and use elements from vlib.gen.docs whose fill refers to the gradients through attribute or
style, on the shape itself or inherited from a group / use.

Fences (never generated; see also the check-side fences in vlib.props.c06):
  * objectBoundingBox units together with clip-path or stroke (outside the property's scope): documents that
    contain clips or strokes use explicit gradientUnits="userSpaceOnUse" on every gradient
  * focal circle not strictly inside the end circle (focus offset <= 0.6 (r - fr)), negative r / fr
  * degenerate gradientTransform (docs.transform_list never produces one)
  * a reference to a gradient of the other kind that itself has an href (SVG 1.1 leaves open whether kind-specific
    attributes pass through an element of the other kind)
  * gradient vectors shorter than 10 % of the viewBox (30 % of the unit box) and stop offset gaps between 0 and
    0.1, so that picosvg's 6-decimal rounding stays far below the colour tolerance
  * fill-rule evenodd, nested svg, display, opacity: covered by C02/C03/C05, they would only add engine noise here
"""
from __future__ import annotations

import math

from hypothesis import strategies as st

from vlib.gen import docs
from vlib.gen.docs import fmt, node

STOP_COLOURS = ["red", "#00f", "#00ff00", "rgb(255,165,0)", "purple", "#0ff", "magenta", "#808000", "navy", "#ff69b4", "white", "black", "gold", "teal"]


def _f6(x):
    x = round(float(x), 4)
    return str(int(x)) if x == int(x) else repr(x)


def _spell(draw, v, scale, pct_p):
    """number or percentage spelling of v (scale = length that 100 % stands for); returns (text, value meant)"""
    if scale and draw(st.integers(0, 99)) < pct_p:
        p = round(v / scale * 100.0, 1)
        return (_f6(p) + "%"), p / 100.0 * scale
    v = round(v, 3)
    return _f6(v), v


@st.composite
def _translate_only(draw, box):
    n = draw(st.sampled_from([1, 1, 2]))
    ops = []
    for _ in range(n):
        tx = round(draw(st.integers(-40, 40)) / 100 * box.w, 3)
        ty = round(draw(st.integers(-40, 40)) / 100 * box.h, 3)
        if draw(st.integers(0, 3)) == 0:
            ops.append(f"translate({fmt(tx)})")
        else:
            ops.append(f"translate({fmt(tx)}{draw(st.sampled_from([' ', ',']))}{fmt(ty)})")
    return " ".join(ops)


def _stops(draw):
    n = draw(st.sampled_from([2, 2, 2, 3, 3, 4]))
    # offsets on a 0.1 grid, distinct, then optional perturbations
    offs = sorted(draw(st.lists(st.integers(0, 10), min_size=n, max_size=n, unique=True)))
    offs = [o / 10.0 for o in offs]
    quirk = draw(st.sampled_from(["none"] * 6 + ["unordered", "outside", "duplicate"]))
    if quirk == "unordered" and n >= 3:
        offs[1], offs[2] = offs[2], offs[1]
    elif quirk == "outside":
        offs[0] = -0.2
        if draw(st.booleans()):
            offs[-1] = 1.3
    elif quirk == "duplicate" and n >= 3:
        offs[1] = offs[2]
    out = []
    prev = None
    for o in offs:
        col = draw(st.sampled_from([c for c in STOP_COLOURS if c != prev]))
        prev = col
        s = node("stop")
        s["a"]["offset"] = (_f6(o * 100) + "%") if draw(st.integers(0, 2)) == 0 else _f6(o)
        how = draw(st.integers(0, 7))
        if how == 0:
            other = draw(st.sampled_from([c for c in STOP_COLOURS if c != col]))
            s["a"]["stop-color"] = other
            s["s"]["stop-color"] = col
        elif how % 2:
            s["a"]["stop-color"] = col
        else:
            s["s"]["stop-color"] = col
        if draw(st.integers(0, 3)) == 0:
            op = draw(st.sampled_from(["0.5", "0.25", "0", ".8", "1"]))
            (s["a"] if draw(st.booleans()) else s["s"])["stop-opacity"] = op
        out.append(s)
    return out, quirk


def _gradient(draw, cx, gid, pool, S):
    """One gradient element; pool = list of dicts describing the gradients created so far."""
    box = cx.box
    kind = draw(st.sampled_from(["linearGradient", "linearGradient", "radialGradient"]))
    href = None
    if pool and draw(st.integers(0, 9)) < 7:
        cands = [g for g in pool if g["depth"] < 3 and (g["kind"] == kind or g["href"] is None)]
        if cands:
            # prefer the gradient created last: longer chains
            href = cands[-1] if draw(st.booleans()) else draw(st.sampled_from(cands))
    g = node(kind, {"id": gid})
    # ---- units
    if S["force_user_space"]:
        units_attr = "userSpaceOnUse"
    elif S["units_mode"] == "mixed":
        units_attr = draw(st.sampled_from([None, "objectBoundingBox", "userSpaceOnUse", "userSpaceOnUse"]))
    elif S["units_mode"] == "user":
        units_attr = "userSpaceOnUse" if (href is None or draw(st.integers(0, 2)) > 0) else None
        if href is not None and units_attr is None and href["eff_units"] != "userSpaceOnUse":
            units_attr = "userSpaceOnUse"
    else:
        units_attr = draw(st.sampled_from([None, None, "objectBoundingBox"]))
        if href is not None and units_attr is None and href["eff_units"] != "objectBoundingBox":
            units_attr = "objectBoundingBox"
    if units_attr is not None:
        g["a"]["gradientUnits"] = units_attr
    eff_units = units_attr or (href["eff_units"] if href else "objectBoundingBox")
    user = eff_units == "userSpaceOnUse"
    # mixed documents: templates are read in units other than their own, only percentages make sense there
    pct_p = 100 if S["units_mode"] == "mixed" else 35
    if user:
        ox, oy, sw, sh = box.x, box.y, box.w, box.h
        sd = math.sqrt((sw * sw + sh * sh) / 2)
        ext = box.ext
    else:
        ox, oy, sw, sh, sd, ext = 0.0, 0.0, 1.0, 1.0, 1.0, 1.0

    def keep():
        # users of a template leave more to inherit
        return draw(st.integers(0, 3)) > (0 if href is None else 1)

    if kind == "linearGradient":
        x1 = ox + draw(st.integers(-10, 90)) / 100 * sw
        y1 = oy + draw(st.integers(-10, 90)) / 100 * sh
        L = draw(st.integers(15, 90)) / 100 * ext if user else draw(st.integers(30, 120)) / 100
        ang = math.radians(draw(st.sampled_from([0, 0, 90, 45, 30, -60, 135, 180, 200, 270, 10])))
        vals = {"x1": (x1, sw), "y1": (y1, sh), "x2": (x1 + L * math.cos(ang), sw), "y2": (y1 + L * math.sin(ang), sh)}
        spelt = {k: _spell(draw, v, sc, pct_p) for k, (v, sc) in vals.items()}
        present = {k for k in spelt if keep()}
        if href is None or href["kind"] != kind:
            # what applies when nothing is inherited: defaults 0%,0%,100%,0%
            eff = {"x1": 0.0, "y1": 0.0, "x2": sw, "y2": 0.0}
            eff.update({k: spelt[k][1] for k in present})
            if math.hypot(eff["x2"] - eff["x1"], eff["y2"] - eff["y1"]) < (0.1 * ext if user else 0.3):
                present = set(spelt)
        for k in ("x1", "y1", "x2", "y2"):
            if k in present:
                g["a"][k] = spelt[k][0]
    else:
        ccx = ox + draw(st.integers(10, 90)) / 100 * sw
        ccy = oy + draw(st.integers(10, 90)) / 100 * sh
        r = draw(st.integers(12, 60)) / 100 * ext if user else draw(st.integers(25, 80)) / 100
        spelt = {"cx": _spell(draw, ccx, sw, pct_p), "cy": _spell(draw, ccy, sh, pct_p), "r": _spell(draw, r, sd, pct_p)}
        present = {k for k in spelt if keep()}
        fr = 0.0
        own_all = present == {"cx", "cy", "r"}
        if draw(st.integers(0, 3)) == 0:
            fr = draw(st.sampled_from([0.1, 0.2, 0.3])) * r
            spelt["fr"] = _spell(draw, fr, sd, pct_p + 25)
            present.add("fr")
            fr = spelt["fr"][1]
        if draw(st.integers(0, 9)) < 4:
            # focal point: within 0.6 of the room left inside the end circle (computed from the values meant here)
            room = 0.6 * max(0.0, spelt["r"][1] - fr)
            fa = math.radians(draw(st.integers(0, 11)) * 30)
            fd = draw(st.sampled_from([0.3, 0.6, 1.0])) * room
            which = draw(st.sampled_from(["both", "both", "fx", "fy"]))
            if which in ("both", "fx"):
                spelt["fx"] = _spell(draw, spelt["cx"][1] + fd * math.cos(fa), sw, pct_p)
                present.add("fx")
            if which in ("both", "fy"):
                spelt["fy"] = _spell(draw, spelt["cy"][1] + fd * math.sin(fa), sh, pct_p)
                present.add("fy")
            if not own_all and draw(st.integers(0, 2)) > 0:
                present |= {"cx", "cy", "r"}  # mostly keep the focus next to the centre it was computed for
            S["feat"].add("focal")
        for k in ("cx", "cy", "r", "fx", "fy", "fr"):
            if k in present:
                g["a"][k] = spelt[k][0]
    if any(v.endswith("%") for k, v in g["a"].items() if k != "id"):
        S["feat"].add("percent-" + ("user" if user else "bbox"))
    # ---- gradientTransform
    if draw(st.integers(0, 2 if href is not None else 1)) == 0:
        tb = box if user else docs.Box(0.0, 0.0, 1.0, 1.0)
        if S["xf_mode"] == "translate" or draw(st.integers(0, 4)) == 0:
            g["a"]["gradientTransform"] = draw(_translate_only(tb))
        else:
            g["a"]["gradientTransform"] = draw(docs.transform_list(tb))
    # ---- spread
    sm = draw(st.sampled_from([None, None, "pad", "reflect", "reflect", "repeat", "repeat"] + ([None] * 4 if href is not None else [])))
    if sm:
        g["a"]["spreadMethod"] = sm
    # ---- stops
    own_stops = href is None or not href["has_stops"] or draw(st.booleans())
    if own_stops:
        g["c"], quirk = _stops(draw)
        if quirk != "none":
            S["feat"].add("stops-" + quirk)
    if href is not None:
        g["a"]["xlink:href"] = "#" + href["id"]
    return {
        "id": gid,
        "kind": kind,
        "href": href["id"] if href else None,
        "depth": (href["depth"] + 1) if href else 0,
        "eff_units": eff_units,
        "has_stops": own_stops or bool(href and href["has_stops"]),
        "node": g,
    }


def _set_fill(draw, n, gid):
    n["a"].pop("fill", None)
    n["s"].pop("fill", None)
    (n["a"] if draw(st.booleans()) else n["s"])["fill"] = f"url(#{gid})"


def _hook(S):
    def hook(draw, cx, n):
        tag = n["tag"]
        usable = S["usable"]
        if tag in ("g", "use"):
            if draw(st.integers(0, 3)) == 0:
                _set_fill(draw, n, draw(st.sampled_from(usable)))
                S["feat"].add("fill-on-" + tag)
            return
        if tag in ("clipPath",):
            return
        n["a"].pop("fill-rule", None)
        k = draw(st.integers(0, 9))
        if k < 7:
            _set_fill(draw, n, draw(st.sampled_from(usable)))
        elif k < 8:
            n["a"].pop("fill", None)
            n["s"].pop("fill", None)
        if draw(st.integers(0, 5)) == 0:
            n["a"]["fill-opacity"] = draw(st.sampled_from(["0.5", "0.25", ".75"]))
        if S["mode"] == "stroke" and draw(st.booleans()):
            for key, v in docs._stroke_props(draw, cx, allow_dash=False).items():
                if key != "stroke-opacity":
                    n["a"][key] = v
            S["feat"].add("stroke")

    return hook


def _walk(n):
    yield n
    for c in n["c"]:
        yield from _walk(c)


@st.composite
def document(draw):
    box = draw(docs.viewbox())
    mode = draw(st.sampled_from(["plain"] * 6 + ["clip", "stroke"]))
    xf_mode = draw(st.sampled_from(["general", "general", "general", "translate", "none"]))
    units_mode = draw(st.sampled_from(["user", "user", "bbox", "bbox", "mixed"]))
    S = {"mode": mode, "xf_mode": xf_mode, "units_mode": units_mode, "force_user_space": mode != "plain", "feat": set(), "usable": []}
    cfg = docs.Cfg(transforms=xf_mode != "none", groups=True, use=True, nested=False, display=False, clip=mode == "clip", max_leaves=4, max_depth=3, micro=False)  # micro-scale groups make no sense here: transforms are rewritten below
    cx = docs._Ctx(cfg, box)
    root = node("svg", {"viewBox": f"{fmt(box.x)} {fmt(box.y)} {fmt(box.w)} {fmt(box.h)}"})
    # ---- gradients
    pool = []
    for i in range(draw(st.sampled_from([1, 2, 3, 3, 4, 4, 5]))):
        pool.append(_gradient(draw, cx, f"p{i + 1}", pool, S))
    S["usable"] = [g["id"] for g in pool if g["has_stops"]]
    order = draw(st.permutations(list(range(len(pool)))))
    grads = [pool[i]["node"] for i in order]
    clips = []
    if cfg.clip:
        for _ in range(draw(st.sampled_from([1, 1, 2]))):
            clips.append(docs._gen_clippath(draw, cx))
    # ---- body
    hook = _hook(S)
    body = []
    for _ in range(draw(st.integers(1, 4))):
        if cx.nleaves >= cfg.max_leaves:
            break
        body.append(docs._gen_content(draw, cx, 1, hook))
    if xf_mode != "none":
        # docs puts a transform on a quarter of the leaves only; this property lives on transformed shapes
        for n in [x for b in body for x in _walk(b)]:
            if "transform" not in n["a"] and n["tag"] != "clipPath" and draw(st.integers(0, 2)) == 0:
                n["a"]["transform"] = draw(docs.transform_list(box))
    if xf_mode == "translate":
        for n in [x for b in body for x in _walk(b)]:
            if "transform" in n["a"]:
                n["a"]["transform"] = draw(_translate_only(box))
        S["feat"].add("translate-only")
    # make sure at least one shape really uses a gradient
    if not any("url(#p" in (n["a"].get("fill", "") + n["s"].get("fill", "")) for b in body for n in _walk(b)):
        leaves = [n for b in body for n in _walk(b) if n["tag"] not in ("g", "use")]
        if leaves:
            _set_fill(draw, leaves[0], S["usable"][0])
    if len(body) >= 2 and draw(st.integers(0, 4)) == 0:
        # the gradient users live inside a translucent group of several children - a group the converter has to
        # keep - and nowhere else: "still in use" must be decided over the whole tree, not over top-level shapes
        body = [node("g", {"opacity": draw(st.sampled_from(["0.5", "0.8"]))}, c=body)]
        S["feat"].add("users-inside-kept-translucent-group")
    # ---- placement of the gradients
    place = draw(st.sampled_from(["first", "first", "last", "last", "split", "bare"]))
    S["feat"].add("defs-" + place)
    if place == "first":
        root["c"] = [node("defs", c=clips + grads)] + body
    elif place == "last":
        root["c"] = ([node("defs", c=clips)] if clips else []) + body + [node("defs", c=grads)]
    elif place == "split":
        k = draw(st.integers(0, len(grads)))
        root["c"] = [node("defs", c=clips + grads[:k])] + body + [node("defs", c=grads[k:])]
        root["c"] = [c for c in root["c"] if c["tag"] != "defs" or c["c"]]
    else:
        k = draw(st.integers(0, len(grads)))
        root["c"] = ([node("defs", c=clips)] if clips else []) + grads[:k] + body + grads[k:]
    docs._strip(root)
    feat = set(cx.feat) | S["feat"] | {"mode-" + mode, "units-" + units_mode}
    return {"svg": docs.serialize(root, root=True), "feat": sorted(feat)}
