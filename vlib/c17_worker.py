"""C17 worker: converts documents handed over a pipe, one JSON line per request.

Started by vlib.c17_pool with cwd = the canary directory.  Protocol (line-delimited JSON):
    request : {"doc": str, "soft": seconds}
    reply   : {"status": "ok"|"exc"|"timeout"|"memory", "out": str|None, "exc_type": str|None,
               "exc_msg": str|None, "elapsed": float, "opened": [file names whose open/read was seen]}
The worker
  * dies with its parent (PR_SET_PDEATHSIG) and on EOF of its stdin,
  * limits its address space (RLIMIT_AS) and writes no core files,
  * arms ITIMER_PROF (CPU time of this process, so machine load does not count) for every request;
    the handler raises a BaseException so that Python-level endless loops end as status "timeout"
    (C-level hangs and sleeping hangs are killed by the parent on wall-clock time),
  * watches the canary files with inotify (IN_OPEN | IN_ACCESS): any read through whatever layer
    (Python, libxml2) is seen, whether or not the content reaches the output.
Nothing in here decides about violations; the parent does.
"""
from __future__ import annotations

import ctypes
import json
import os
import resource
import signal
import struct
import sys
import time

IN_ACCESS, IN_OPEN, IN_NONBLOCK = 0x1, 0x20, 0o4000
MAX_OUT = 4 << 20
MAX_MSG = 200000


class SoftTimeout(BaseException):
    pass


def _on_alarm(signum, frame):
    raise SoftTimeout()


def main(argv):
    canary_dir = argv[0]
    mem_limit = int(argv[1])
    try:
        libc = ctypes.CDLL("libc.so.6", use_errno=True)
        libc.prctl(1, signal.SIGKILL, 0, 0, 0)  # PR_SET_PDEATHSIG
    except Exception:
        libc = None
    if os.getppid() == 1:
        return 0
    resource.setrlimit(resource.RLIMIT_CORE, (0, 0))

    # private reply channel; anything the library prints goes to stderr
    reply = os.fdopen(os.dup(1), "w", buffering=1)
    os.dup2(2, 1)
    sys.stdout = sys.stderr

    from picosvg.svg import SVG  # noqa: E402  (code under test)

    resource.setrlimit(resource.RLIMIT_AS, (mem_limit, mem_limit))

    ifd = -1
    wds = {}
    if libc is not None:
        try:
            ifd = libc.inotify_init1(IN_NONBLOCK)
            if ifd >= 0:
                for fn in sorted(os.listdir(canary_dir)):
                    wd = libc.inotify_add_watch(ifd, os.path.join(canary_dir, fn).encode(), IN_OPEN | IN_ACCESS)
                    if wd >= 0:
                        wds[wd] = fn
        except Exception:
            ifd = -1

    def drain():
        seen = []
        if ifd < 0:
            return seen
        while True:
            try:
                buf = os.read(ifd, 65536)
            except (BlockingIOError, InterruptedError):
                break
            except OSError:
                break
            if not buf:
                break
            off = 0
            while off + 16 <= len(buf):
                wd, mask, _cookie, ln = struct.unpack_from("iIII", buf, off)
                off += 16 + ln
                if mask & (IN_OPEN | IN_ACCESS) and wd in wds and wds[wd] not in seen:
                    seen.append(wds[wd])
        return seen

    signal.signal(signal.SIGPROF, _on_alarm)
    reply.write(json.dumps({"ready": True, "inotify": ifd >= 0 and len(wds) > 0}) + "\n")

    for line in sys.stdin:
        if not line.strip():
            continue
        req = json.loads(line)
        doc = req["doc"]
        drain()
        res = {"status": "ok", "out": None, "exc_type": None, "exc_msg": None}
        t0 = time.time()
        c0 = time.process_time()
        try:
            signal.setitimer(signal.ITIMER_PROF, float(req.get("soft", 10.0)))
            try:
                svg = SVG.fromstring(doc)
                if req.get("route") == "check-then-convert":
                    # the build-tool idiom "is it a picosvg already? else convert", on one object; the conversion is
                    # run in either case so that the outcome contract is the same as for the plain route
                    svg.checkpicosvg()
                    out = svg.topicosvg().tostring()
                else:
                    out = svg.topicosvg().tostring()
            finally:
                signal.setitimer(signal.ITIMER_PROF, 0)
            res["out"] = out if len(out) <= MAX_OUT else out[:MAX_OUT]
            res["out_len"] = len(out)
        except SoftTimeout:
            res["status"] = "timeout"
        except MemoryError:
            res["status"] = "memory"
        except BaseException as e:  # an exception is a legitimate way to finish
            signal.setitimer(signal.ITIMER_PROF, 0)
            res["status"] = "exc"
            res["exc_type"] = type(e).__name__
            try:
                msg = str(e)
            except BaseException:
                msg = "<unprintable>"
            res["exc_msg"] = msg[:MAX_MSG]
        res["elapsed"] = round(time.time() - t0, 4)
        res["cpu"] = round(time.process_time() - c0, 4)
        res["opened"] = drain()
        try:
            payload = json.dumps(res)
        except MemoryError:
            payload = json.dumps({"status": "memory", "out": None, "exc_type": None, "exc_msg": None, "elapsed": res["elapsed"], "opened": res["opened"]})
        reply.write(payload + "\n")
    return 0


if __name__ == "__main__":
    sys.exit(main(sys.argv[1:]))
