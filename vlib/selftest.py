"""Self-tests of the reference (oracle) components; run by `./check --setup`.
Exit 0 when all pass.  These pin the oracles on hand-computed cases so that an oracle bug
cannot silently weaken (or falsely trigger) a check."""
import importlib
import sys
import traceback

MODULES = ["vlib.refsvg.test_pathgrammar", "vlib.refsvg.test_arcref", "vlib.refsvg.test_geom", "vlib.refsvg.test_render", "vlib.refsvg.test_gradient"]


def main():
    failed = 0
    total = 0
    for m in MODULES:
        try:
            mod = importlib.import_module(m)
        except ImportError:
            traceback.print_exc()
            failed += 1
            continue
        for name in sorted(dir(mod)):
            if name.startswith("test_"):
                total += 1
                try:
                    getattr(mod, name)()
                except Exception:
                    failed += 1
                    print(f"SELFTEST FAIL {m}.{name}")
                    traceback.print_exc()
    print(f"selftest: {total - failed}/{total} passed")
    return 1 if failed else 0


if __name__ == "__main__":
    sys.exit(main())
