"""Generators for C19 (clip_to_viewbox and bounding boxes).

placed_doc():  documents whose leaves are fitted into target boxes chosen *relative to the viewBox border*
               (per axis: inside / beyond / straddling / spanning / exactly touching), so that removed, cut and
               untouched shapes are all frequent; translucent groups that the clip empties or reduces to one child.
window_doc():  documents of the shared structural grammar (vlib.gen.docs.document: groups, transforms, use,
               opacity) whose viewBox is a random sub-window of the area the shapes are spread over.
bbox_case():   1-4 untransformed shapes of all kinds; paths built to have extrema strictly between control
               points, rotated arcs, several subpaths, isolated / trailing movetos.
All numbers are drawn from integers (shrinkable, at most 3 decimals in the text).
"""
from __future__ import annotations

import math

from hypothesis import strategies as st

from vlib.gen import docs
from vlib.gen.docs import Box, fmt, node, serialize

AXIS = [
    "in", "in", "in", "lo-out", "hi-out", "lo-str", "hi-str", "lo-str", "hi-str", "span", "span",
    "touch-lo-out", "touch-hi-out", "touch-lo-in", "touch-hi-in", "flush", "lo-graze", "hi-graze",
]

KINDS = [
    "rect", "rect", "rrect", "ellipse", "circle", "tri", "tri", "poly", "star", "ring",
    "quadlens", "quadlens", "quadblob", "cubicarch", "arcD", "path", "generic",
]


@st.composite
def view_box(draw):
    if draw(st.integers(0, 2)) == 0:
        x = draw(st.integers(-600, 600)) / 2
        y = draw(st.integers(-600, 600)) / 2
        w = draw(st.integers(16, 1200)) / 2
        h = draw(st.integers(16, 1200)) / 2
    else:
        x = draw(st.sampled_from([0, 0, -20, 15.5, -100, 30, -7.25, 250, -64, -0.5, 0.25]))
        y = draw(st.sampled_from([0, 0, -10, 7.25, 50, -60, -33.5, 120, -64, -0.5, 0.75]))
        w = draw(st.sampled_from([100, 128, 24, 200, 64, 300, 1000, 48.5, 10]))
        h = draw(st.sampled_from([100, 128, 24, 150, 64, 80, 500, 36, 10]))
    return Box(float(x), float(y), float(w), float(h))


def _interval(draw, a, L, kind):
    def f(lo, hi):
        return draw(st.integers(lo, hi)) / 100.0 * L

    b = a + L
    if kind == "in":
        lo = a + f(3, 60)
        hi = min(lo + f(5, 35), a + 0.97 * L)
    elif kind == "lo-out":
        hi = a - f(3, 40)
        lo = hi - f(5, 50)
    elif kind == "hi-out":
        lo = b + f(3, 40)
        hi = lo + f(5, 50)
    elif kind == "lo-str":
        lo, hi = a - f(3, 50), a + f(5, 70)
    elif kind == "hi-str":
        lo, hi = b - f(5, 70), b + f(3, 50)
    elif kind == "span":
        lo, hi = a - f(3, 40), b + f(3, 40)
    elif kind == "touch-lo-out":
        lo, hi = a - f(5, 50), a
    elif kind == "touch-hi-out":
        lo, hi = b, b + f(5, 50)
    elif kind == "touch-lo-in":
        lo, hi = a, a + f(5, 60)
    elif kind == "touch-hi-in":
        lo, hi = b - f(5, 60), b
    elif kind in ("lo-graze", "hi-graze"):
        # sticks out by a hair (0.02% .. 0.09% of the side): still has to be cut at the border
        d = draw(st.sampled_from([0.0002, 0.0005, 0.0009])) * L
        lo, hi = (a - d, a + f(5, 70)) if kind == "lo-graze" else (b - f(5, 70), b + d)
        return round(lo, 4), round(hi, 4)
    else:  # flush
        lo, hi = a, b
    lo, hi = round(lo, 2), round(hi, 2)
    if hi - lo < 0.02 * L:
        hi = round(lo + 0.05 * L, 2)
    return lo, hi


def _p(x, y):
    return f"{fmt(x)},{fmt(y)}"


def fitted_shape(draw, kind, x0, y0, x1, y1):
    """A shape whose tight bounding box is (about) the target box."""
    w, h = x1 - x0, y1 - y0
    mx, my = (x0 + x1) / 2, (y0 + y1) / 2
    if kind == "rect":
        return node("rect", {"x": fmt(x0), "y": fmt(y0), "width": fmt(w), "height": fmt(h)})
    if kind == "rrect":
        a = {"x": fmt(x0), "y": fmt(y0), "width": fmt(w), "height": fmt(h)}
        which = draw(st.sampled_from(["rx", "ry", "both"]))
        if which in ("rx", "both"):
            a["rx"] = fmt(max(0.01, round(draw(st.integers(5, 50)) / 100 * w, 2)))
        if which in ("ry", "both"):
            a["ry"] = fmt(max(0.01, round(draw(st.integers(5, 50)) / 100 * h, 2)))
        return node("rect", a)
    if kind == "ellipse":
        return node("ellipse", {"cx": fmt(mx), "cy": fmt(my), "rx": fmt(w / 2), "ry": fmt(h / 2)})
    if kind == "circle":
        return node("circle", {"cx": fmt(mx), "cy": fmt(my), "r": fmt(min(w, h) / 2)})
    if kind == "tri":
        corners = [(x0, y0), (x1, y0), (x1, y1), (x0, y1)]
        k = draw(st.integers(0, 3))
        pts = [corners[(k + i) % 4] for i in (0, 1, 3)]  # right angle at corner k, the opposite corner is empty
        if draw(st.booleans()):
            return node("polygon", {"points": " ".join(_p(*q) for q in pts)})
        return node("path", {"d": "M" + " L".join(_p(*q) for q in pts) + " Z"})
    if kind == "poly":
        n = draw(st.integers(3, 6))
        pts = []
        for _ in range(n):
            pts.append((x0 + draw(st.integers(0, 20)) / 20 * w, y0 + draw(st.integers(0, 20)) / 20 * h))
        return node("polygon", {"points": " ".join(_p(*q) for q in pts)})
    if kind == "star":
        pts = [(mx + w / 2 * math.sin(2 * math.pi * (2 * i) / 5), my - h / 2 * math.cos(2 * math.pi * (2 * i) / 5)) for i in range(5)]
        return node("polygon", {"points": " ".join(_p(*q) for q in pts)})
    if kind == "ring":
        ix, iy, iw, ih = x0 + w * 0.25, y0 + h * 0.25, w * 0.5, h * 0.5
        outer = f"M{_p(x0, y0)} h{fmt(w)} v{fmt(h)} h{fmt(-w)} z"
        if draw(st.booleans()):
            inner = f"M{_p(ix, iy)} h{fmt(iw)} v{fmt(ih)} h{fmt(-iw)} z"
        else:
            inner = f"M{_p(ix, iy)} v{fmt(ih)} h{fmt(iw)} v{fmt(-ih)} z"
        return node("path", {"d": outer + " " + inner})
    if kind == "quadlens":
        # one quadratic + chord: the control point sticks out of the tight box by its whole height
        o = draw(st.sampled_from("NSEW"))
        if o == "N":
            d = f"M{_p(x0, y1)} Q{_p(mx, y0 - h)} {_p(x1, y1)} Z"
        elif o == "S":
            d = f"M{_p(x0, y0)} Q{_p(mx, y1 + h)} {_p(x1, y0)} Z"
        elif o == "W":
            d = f"M{_p(x1, y0)} Q{_p(x0 - w, my)} {_p(x1, y1)} Z"
        else:
            d = f"M{_p(x0, y0)} Q{_p(x1 + w, my)} {_p(x0, y1)} Z"
        return node("path", {"d": d})
    if kind == "quadblob":
        d = f"M{_p(mx, y0)} Q{_p(x1, y0)} {_p(x1, my)} Q{_p(x1, y1)} {_p(mx, y1)} Q{_p(x0, y1)} {_p(x0, my)} Q{_p(x0, y0)} {_p(mx, y0)} Z"
        return node("path", {"d": d})
    if kind == "cubicarch":
        if draw(st.booleans()):
            cy = y0 - h / 3
            d = f"M{_p(x0, y1)} C{_p(x0, cy)} {_p(x1, cy)} {_p(x1, y1)} Z"
        else:
            cx_ = x1 + w / 3
            d = f"M{_p(x0, y0)} C{_p(cx_, y0)} {_p(cx_, y1)} {_p(x0, y1)} Z"
        return node("path", {"d": d})
    if kind == "arcD":
        if draw(st.booleans()):
            d = f"M{_p(x0, y0)} A{fmt(w)} {fmt(h / 2)} 0 0 1 {_p(x0, y1)} Z"
        else:
            d = f"M{_p(x0, my)} A{fmt(w / 2)} {fmt(h / 2)} 0 1 1 {_p(x1, my)} A{fmt(w / 2)} {fmt(h / 2)} 0 1 1 {_p(x0, my)} Z"
        return node("path", {"d": d})
    b = Box(x0, y0, w, h)
    if kind == "path":
        return node("path", {"d": draw(docs.path_data(b))})
    return draw(docs.shape(docs.Cfg(), b, kinds=["rect", "circle", "ellipse", "polygon", "polyline", "path", "ring", "star"]))


class _Cx:
    def __init__(self, vb):
        self.vb = vb
        self.n = 0
        self.feat = set()


def _leaf(draw, cx):
    vb = cx.vb
    kx, ky = draw(st.sampled_from(AXIS)), draw(st.sampled_from(AXIS))
    x0, x1 = _interval(draw, vb.x, vb.w, kx)
    y0, y1 = _interval(draw, vb.y, vb.h, ky)
    kind = draw(st.sampled_from(KINDS))
    n = fitted_shape(draw, kind, x0, y0, x1, y1)
    col = docs.PALETTE[cx.n % len(docs.PALETTE)]
    cx.n += 1
    (n["a"] if draw(st.booleans()) else n["s"])["fill"] = col
    if draw(st.integers(0, 3)) == 0:
        n["a"]["fill-opacity"] = draw(st.sampled_from(["0.5", "0.25", ".75"]))
    if draw(st.integers(0, 7)) == 0:
        n["a"]["opacity"] = draw(st.sampled_from(["0.5", "0.8"]))
    if n["tag"] in ("path", "polygon", "polyline") and draw(st.integers(0, 1)) == 0:
        n["a"]["fill-rule"] = draw(st.sampled_from(["evenodd", "evenodd", "nonzero"]))
        if n["a"]["fill-rule"] == "evenodd":
            cx.feat.add("src-evenodd")
    if draw(st.integers(0, 9)) == 0:
        n["a"]["transform"] = draw(docs.transform_list(vb))
        cx.feat.add("transform")
    cx.feat.add("shape:" + kind)
    cx.feat.add(f"place:{kx}/{ky}")
    return n


def _group(draw, cx, depth):
    g = node("g")
    if draw(st.integers(0, 3)) != 0:
        v = draw(st.sampled_from(["0.5", "0.25", "0.8", ".6"]))
        (g["a"] if draw(st.booleans()) else g["s"])["opacity"] = v
        cx.feat.add("group-opacity")
    if draw(st.integers(0, 7)) == 0:
        tx = round(draw(st.integers(-30, 30)) / 100 * cx.vb.w, 2)
        ty = round(draw(st.integers(-30, 30)) / 100 * cx.vb.h, 2)
        g["a"]["transform"] = f"translate({fmt(tx)} {fmt(ty)})"
        cx.feat.add("group-translate")
    for _ in range(draw(st.sampled_from([1, 2, 2, 3]))):
        if cx.n >= 8:
            break
        if depth < 2 and draw(st.integers(0, 4)) == 0:
            g["c"].append(_group(draw, cx, depth + 1))
        else:
            g["c"].append(_leaf(draw, cx))
    return g


def _spell_viewbox(draw, cx, nums):
    """Legal spellings of a viewBox: comma and/or whitespace separators, leading zero of a fraction omitted
    (.5, -.5) as minifiers write it."""
    toks = [fmt(v) for v in nums]
    if draw(st.booleans()):
        toks = [("-" if t.startswith("-") else "") + t.lstrip("-")[1:] if t.lstrip("-").startswith("0.") else t for t in toks]
        if any(t.lstrip("-").startswith(".") for t in toks):
            cx.feat.add("viewBox-leading-dot")
    return draw(st.sampled_from([" ", " ", ",", ", ", "  "])).join(toks)


@st.composite
def placed_doc(draw):
    vb = draw(view_box())
    cx = _Cx(vb)
    if vb.x == 0 and vb.y == 0 and draw(st.integers(0, 3)) == 0:
        root = node("svg", {"width": fmt(vb.w), "height": fmt(vb.h)})
        cx.feat.add("no-viewBox-attr")
    else:
        root = node("svg", {"viewBox": _spell_viewbox(draw, cx, [vb.x, vb.y, vb.w, vb.h])})
    for _ in range(draw(st.integers(1, 5))):
        if cx.n >= 8:
            break
        if draw(st.integers(0, 2)) == 0:
            root["c"].append(_group(draw, cx, 1))
        else:
            root["c"].append(_leaf(draw, cx))
    return {"svg": serialize(root, root=True), "feat": sorted(cx.feat), "gen": "placed"}


WINDOW_CFG = docs.Cfg(transforms=True, groups=True, use=True, nested=False, display=False, opacity=True, translucent_fill=True, max_leaves=6)


def _window_hook(draw, cx, root):
    b = cx.box
    fw, fh = draw(st.integers(35, 75)) / 100, draw(st.integers(35, 75)) / 100
    ox, oy = draw(st.integers(0, 100)) / 100 * (1 - fw), draw(st.integers(0, 100)) / 100 * (1 - fh)
    root["a"]["viewBox"] = f"{fmt(round(b.x + ox * b.w, 2))} {fmt(round(b.y + oy * b.h, 2))} {fmt(round(fw * b.w, 2))} {fmt(round(fh * b.h, 2))}"


@st.composite
def window_doc(draw):
    c = draw(docs.document(WINDOW_CFG, root_hook=_window_hook))
    return {"svg": c["svg"], "feat": c["feat"], "gen": "window"}


def clip_case():
    return st.one_of(placed_doc(), placed_doc(), placed_doc(), window_doc())


# ------------------------------------------------------------------ bounding boxes


def _c(draw, lo=-3000, hi=3000):
    return draw(st.integers(lo, hi)) / 10.0


@st.composite
def built_path(draw):
    """Path data assembled from segment recipes; returns (d, labels)."""
    labels = set()
    parts = []
    nsub = draw(st.sampled_from([1, 1, 2, 3]))
    cur = (0.0, 0.0)
    fam = draw(st.sampled_from(["mixed", "mixed", "Q", "C", "A", "L"]))
    for si in range(nsub):
        p = (_c(draw), _c(draw))
        if si > 0 and draw(st.integers(0, 4)) == 0:
            cur = (_c(draw), _c(draw))
            parts.append(f"M{_p(*cur)}")  # isolated moveto (draws nothing)
            labels.add("isolated-move")
        rel_m = si > 0 and draw(st.booleans())
        parts.append(f"m{_p(p[0] - cur[0], p[1] - cur[1])}" if rel_m else f"M{_p(*p)}")
        cur = p
        start = p
        for _ in range(draw(st.integers(1, 4))):
            pool = {"mixed": "LHVQQTCCSAA", "Q": "QQT", "C": "CCS", "A": "A", "L": "LHV"}[fam]
            c = draw(st.sampled_from(pool))
            rel = draw(st.booleans())
            e = (_c(draw), _c(draw))
            if c == "H":
                e = (e[0], cur[1])
            elif c == "V":
                e = (cur[0], e[1])

            def W(q):
                return _p(q[0] - cur[0], q[1] - cur[1]) if rel else _p(*q)

            L = c.lower() if rel else c
            if c in "LT":
                parts.append(f"{L}{W(e)}")
            elif c == "H":
                parts.append(f"{L}{fmt(e[0] - cur[0]) if rel else fmt(e[0])}")
            elif c == "V":
                parts.append(f"{L}{fmt(e[1] - cur[1]) if rel else fmt(e[1])}")
            elif c == "Q" or c == "S":
                parts.append(f"{L}{W((_c(draw), _c(draw)))} {W(e)}")
            elif c == "C":
                parts.append(f"{L}{W((_c(draw), _c(draw)))} {W((_c(draw), _c(draw)))} {W(e)}")
            else:
                rx, ry = draw(st.integers(5, 4000)) / 10.0, draw(st.integers(5, 4000)) / 10.0
                rot = draw(st.sampled_from([0, 0, 30, -45, 90, 17.5, 200, -300]))
                parts.append(f"{L}{fmt(rx)} {fmt(ry)} {fmt(rot)} {draw(st.integers(0, 1))} {draw(st.integers(0, 1))} {W(e)}")
                if rot % 90:
                    labels.add("rotated-arc")
            # the reader sees the rounded text: track the current point the same way
            cur = (round(cur[0] + round(e[0] - cur[0], 3), 3), round(cur[1] + round(e[1] - cur[1], 3), 3)) if rel else (round(e[0], 3), round(e[1], 3))
        if draw(st.integers(0, 2)) == 0:
            parts.append(draw(st.sampled_from("zZ")))
            cur = start
            if draw(st.integers(0, 3)) == 0:
                # drawing right after closepath: new subpath at the same start
                e = (_c(draw), _c(draw))
                parts.append(f"L{_p(*e)}")
                cur = e
                labels.add("draw-after-z")
    if draw(st.integers(0, 3)) == 0:
        parts.append(f"M{_p(_c(draw), _c(draw))}")
        labels.add("trailing-move")
    labels.add("family:" + fam)
    return " ".join(parts), sorted(labels)


@st.composite
def bbox_shape(draw):
    k = draw(st.sampled_from(["path", "path", "path", "docs-path", "rect", "rrect", "circle", "ellipse", "line", "polyline", "polygon"]))
    if k == "path":
        d, lab = draw(built_path())
        return {"tag": "path", "a": {"d": d}, "lab": lab}
    if k == "docs-path":
        b = Box(_c(draw, -1000, 1000), _c(draw, -1000, 1000), draw(st.integers(10, 3000)) / 10.0, draw(st.integers(10, 3000)) / 10.0)
        return {"tag": "path", "a": {"d": draw(docs.path_data(b, closed_bias=False, wild=draw(st.booleans())))}, "lab": ["docs-path"]}
    x, y = _c(draw), _c(draw)
    w, h = draw(st.integers(1, 5000)) / 10.0, draw(st.integers(1, 5000)) / 10.0
    if k == "rect":
        return {"tag": "rect", "a": {"x": fmt(x), "y": fmt(y), "width": fmt(w), "height": fmt(h)}, "lab": []}
    if k == "rrect":
        a = {"x": fmt(x), "y": fmt(y), "width": fmt(w), "height": fmt(h)}
        which = draw(st.sampled_from(["rx", "ry", "both"]))
        if which in ("rx", "both"):
            a["rx"] = fmt(draw(st.integers(1, 4000)) / 10.0)
        if which in ("ry", "both"):
            a["ry"] = fmt(draw(st.integers(1, 4000)) / 10.0)
        return {"tag": "rect", "a": a, "lab": ["rounded"]}
    if k == "circle":
        return {"tag": "circle", "a": {"cx": fmt(x), "cy": fmt(y), "r": fmt(w)}, "lab": []}
    if k == "ellipse":
        return {"tag": "ellipse", "a": {"cx": fmt(x), "cy": fmt(y), "rx": fmt(w), "ry": fmt(h)}, "lab": []}
    if k == "line":
        return {"tag": "line", "a": {"x1": fmt(x), "y1": fmt(y), "x2": fmt(_c(draw)), "y2": fmt(_c(draw))}, "lab": []}
    n = draw(st.integers(2, 6))
    pts = " ".join(_p(_c(draw), _c(draw)) for _ in range(n))
    return {"tag": k, "a": {"points": pts}, "lab": []}


@st.composite
def bbox_case(draw):
    n = draw(st.sampled_from([1, 1, 2, 3, 4]))
    return {"shapes": [draw(bbox_shape()) for _ in range(n)]}
