"""Documents for C15: a fixed corpus of small SVGs chosen to make every public operation of
picosvg.svg.SVG do something, plus fragments from which Hypothesis composes further documents.

Nothing here imports picosvg.  Fences (see c15.ASSUMPTIONS): no comments / processing instructions
outside the root element, no <use> cycles, only xlink:href references, valid numbers everywhere.
"""
from __future__ import annotations

SVGNS = 'xmlns="http://www.w3.org/2000/svg"'
XLINK = 'xmlns:xlink="http://www.w3.org/1999/xlink"'

# ---------------------------------------------------------------- fixed corpus

BASIC = (
    f'<svg {SVGNS} viewBox="0 0 100 100" width="100" height="100">'
    '<g style="fill:red" opacity="0.5">'
    '<rect x="10" y="10" width="30.123456" height="20" rx="0" class="k"/>'
    '<path d="M5,5 l20.55555,0 v10 h-5 z m3,3" style="stroke:blue;stroke-width:2" data-n="1"/>'
    '<ellipse cx="70.25" cy="20" rx="8" ry="4" fill="#00f" fill-opacity="0.5"/>'
    "</g>"
    '<circle cx="50" cy="50" r="10.5" fill="none"/>'
    "</svg>"
)

USE_NESTED = (
    f'<svg {SVGNS} {XLINK} viewBox="0 0 60 60">'
    "<title>t</title><desc>d</desc>"
    '<defs><path id="p" d="M0,0 h10 v10 h-10 z" fill="green"/></defs>'
    '<symbol><rect width="5" height="5"/></symbol>'
    '<use xlink:href="#p" x="5" y="5"/>'
    '<use xlink:href="#p" transform="translate(30 0)" opacity="0.5"/>'
    '<svg x="20" y="20" width="20" height="20" viewBox="0 0 10 10" fill="blue">'
    '<rect x="1" y="1" width="8" height="12"/>'
    "</svg>"
    "</svg>"
)

EVENODD_STROKE = (
    f'<svg {SVGNS} viewBox="0 0 40 40">'
    '<path fill-rule="evenodd" d="M2,2 h20 v20 h-20 z M8,8 h8 v8 h-8 z"/>'
    '<path d="M5,30 q5,-10 10,0 t10,0 M50,50" fill="none" stroke="black" stroke-width="2" stroke-opacity="0.5"/>'
    '<polygon points="30,5 50,5 50,15 30,15" fill="purple" fill-opacity="0.25"/>'
    '<line x1="0" y1="0" x2="10.04" y2="0.06" stroke="red"/>'
    '<path d="M100,100 h5 v5 z" fill="orange"/>'
    '<rect x="1" y="36" width="0" height="2"/>'
    "</svg>"
)

PICO = (
    f'<svg {SVGNS} viewBox="0 0 32 32">'
    "<defs>"
    '<linearGradient id="g" x1="0" y1="0" x2="32" y2="0" gradientUnits="userSpaceOnUse">'
    '<stop offset="0" stop-color="red"/><stop offset="1" stop-color="blue"/>'
    "</linearGradient>"
    "</defs>"
    '<path d="M2,2 L30,2 L30,30 L2,30 Z" fill="url(#g)"/>'
    '<g opacity="0.5"><path d="M4,4 L10,4 L10,10 Z"/><path d="M6,6 L12,6 L12,12 Z" fill="#123456"/></g>'
    "</svg>"
)

FOREIGN_CLIP = (
    f'<svg {SVGNS} {XLINK} xmlns:ink="http://example.com/ink" ink:version="1" width="50" height="40" fill="gray">'
    "<?pi some data?>"
    "<ink:thing a='1'><ink:child/></ink:thing>"
    "<metadata>m</metadata>"
    "<defs>"
    '<clipPath id="c"><circle cx="20" cy="20" r="15"/></clipPath>'
    '<radialGradient id="rg" cx="0.5" cy="0.5" r="0.5"><stop offset="0" stop-color="#fff"/><stop offset="1" stop-color="#000"/></radialGradient>'
    "</defs>"
    '<g clip-path="url(#c)" transform="translate(2,3)">'
    '<rect x="5" y="5" width="30" height="30" fill="url(#rg)" ink:label="r"/>'
    "</g>"
    '<polyline points="1,1 9,1 9,9" style="fill:none;stroke:#222"/>'
    "</svg>"
)

DIMS_ONLY = (
    f'<svg {SVGNS} width="24" height="24" stroke="navy" stroke-width="1.5">'
    '<g id="grp" fill="none"><path id="a" d="M2,2 C2,10 10,10 10,2 S18,-6 18,2"/></g>'
    '<g transform="scale(2)" opacity="0.5"><circle id="b" cx="6" cy="8" r="2.25" stroke="none" fill="teal"/>'
    '<rect x="8" y="8" width="3" height="3" stroke="none" fill="teal"/></g>'
    "</svg>"
)

INHERITED_NUMERIC = (
    f'<svg {SVGNS} viewBox="0 0 40 40">'
    '<g fill-opacity="0.5" stroke-opacity="0.25"><rect x="2" y="2" width="6" height="6"/><path d="M1,1 h5 v5 z" fill="red"/></g>'
    '<g stroke-width="3" stroke-miterlimit="2"><path d="M10,10 h5 v5 z" fill="blue" stroke-width="1"/></g>'
    "</svg>"
)

CORPUS = {
    "basic": BASIC,
    "use_nested": USE_NESTED,
    "evenodd_stroke": EVENODD_STROKE,
    "pico": PICO,
    "foreign_clip": FOREIGN_CLIP,
    "dims_only": DIMS_ONLY,
    "inherited_numeric": INHERITED_NUMERIC,
}

# ---------------------------------------------------------------- fragments for composed documents
# every fragment is self-contained (own ids prefixed by its key) so that any subset is a valid document

ROOT_ATTRS = [
    'viewBox="0 0 100 100"',
    'viewBox="0 0 64 48" width="64" height="48"',
    'width="80" height="80"',
    'viewBox="10 10 50 50" fill="maroon"',
    'viewBox="0 0 100 100" stroke="black" stroke-width="2" fill="none"',
    'viewBox="0 0 100 100" style="fill:olive" opacity="0.8"',
]

FRAGMENTS = {
    # numeric presentation attributes (default 1) inherited from a group: an operation that resets the shape's own
    # value to the default must leave the shape saying so, or it silently re-inherits the group's value
    "inherited_numeric": '<g fill-opacity="0.5" stroke-opacity="0.25" stroke-width="3"><rect x="2" y="2" width="6" height="6"/><path d="M1,1 h5 v5 z" fill="red"/><circle cx="20" cy="20" r="4" fill-opacity="0.5"/></g>',
    "rect_in_styled_g": '<g style="fill:red;stroke-width:3"><rect x="10" y="10" width="30.5" height="20" rx="0" class="k"/><rect x="12" y="12" width="3" height="3" fill="#00f"/></g>',
    "rel_path": '<path d="M5,5 l20.5555,0 v10 h-5 z m3,3" style="opacity:0.5"/>',
    "shorthand": '<path id="sh" d="M2,2 C2,10 10,10 10,2 S18,-6 18,2 q4,4 8,0 t8,0" fill="none" stroke="#333"/>',
    "unpainted": '<circle cx="50" cy="50" r="10.5" fill="none"/>',
    "ellipse_op": '<ellipse cx="70.25" cy="20" rx="8" ry="4" fill="#00f" fill-opacity="0.5"/>',
    "use_path": '<defs><path id="up" d="M0,0 h10 v10 h-10 z" fill="green"/></defs><use xlink:href="#up" x="5" y="55"/><use xlink:href="#up" transform="translate(30 60)" opacity="0.5"/>',
    "use_group": '<defs><g id="ug" fill="tan"><rect width="4" height="4"/><circle cx="8" cy="2" r="2"/></g></defs><use xlink:href="#ug" x="60" y="60"/>',
    "nested": '<svg x="20" y="20" width="20" height="20" viewBox="0 0 10 10" fill="blue"><rect x="1" y="1" width="8" height="12"/></svg>',
    "nested_visible": '<svg x="60" y="5" width="10" height="10" overflow="visible"><circle cx="5" cy="5" r="7"/></svg>',
    "evenodd": '<path fill-rule="evenodd" d="M42,42 h20 v20 h-20 z M48,48 h8 v8 h-8 z"/>',
    "stroked": '<path d="M5,80 q5,-10 10,0 t10,0" fill="none" stroke="black" stroke-width="2" stroke-opacity="0.5"/>',
    "outside": '<path d="M200,200 h5 v5 z" fill="orange"/><rect x="90" y="90" width="20" height="20" fill="pink"/>',
    "empty_sub": '<path d="M1,1 M3,3 L9,3 L9,9 Z M7,7" fill="cyan"/><rect x="1" y="36" width="0" height="2"/>',
    "gradient": '<defs><linearGradient id="lg" x1="0" y1="0" x2="1" y2="0"><stop offset="0" stop-color="red"/><stop offset="1" stop-color="blue"/></linearGradient></defs><g transform="translate(3,4)"><rect x="5" y="5" width="30" height="30" fill="url(#lg)"/></g>',
    "clipped": '<defs><clipPath id="cp"><circle cx="20" cy="70" r="12"/></clipPath></defs><g clip-path="url(#cp)"><rect x="10" y="60" width="30" height="30" fill="lime"/></g>',
    "title_sym": "<title>t</title><desc>d</desc><symbol><rect width='5' height='5'/></symbol><metadata>m</metadata>",
    "pi_foreign": '<?pi some data?><ink:thing xmlns:ink="http://example.com/ink" a="1"><ink:child/></ink:thing>',
    "op_group": '<g opacity="0.5"><path d="M64,4 L70,4 L70,10 Z"/><path d="M66,6 L72,6 L72,12 Z" fill="#123456"/></g>',
    "polys": '<polygon points="30,5 50,5 50,15 30,15" fill="purple" fill-opacity="0.25"/><polyline points="1,1 9,1 9,9" style="fill:none;stroke:#222"/><line x1="0" y1="0" x2="10.04" y2="0.06" stroke="red"/>',
    "nong_containers": '<a fill="none" stroke="red"><rect x="40" y="2" width="6" height="6" fill="black"/></a><switch fill-opacity="0.5"><rect x="50" y="2" width="6" height="6" fill-opacity="1"/></switch><defs fill="none"><rect id="dr" width="5" height="5" fill="black" stroke="none"/></defs><use xlink:href="#dr" x="60" y="2"/>',
    "display_none": '<g display="none"><rect x="2" y="2" width="3" height="3"/></g><path d="M80,80 l5,0 l0,5 z" opacity="0"/>',
}


def compose(root_idx: int, keys) -> str:
    body = "".join(FRAGMENTS[k] for k in keys)
    return f"<svg {SVGNS} {XLINK} {ROOT_ATTRS[root_idx]}>{body}</svg>"
