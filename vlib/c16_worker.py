"""C16 worker: converts a sequence of documents in THIS interpreter and reports a digest per conversion.

Run as   python -m vlib.c16_worker   with a JSON job on stdin:
    {"docs": [{"svg": str, "opts": {...}}, ...], "seq": [doc index, ...]}
The documents are converted in the order given by "seq" (an index may occur many times).  Output
(JSON on the real stdout; anything the library prints goes to stderr):
    {"out": [["ok", sha256] | ["exc", ExceptionTypeName, message], ...],   # one entry per element of seq
     "texts": {sha256: output text},                                        # every distinct output once
     "picosvg": path of the imported picosvg package, "fingerprint": sha256 over its *.py files,
     "hashseed": value of PYTHONHASHSEED}
The parent varies PYTHONHASHSEED in the environment; everything else is inherited.
"""
import hashlib
import json
import os
import sys


def convert(svg_text, opts):
    from picosvg.svg import SVG  # already imported by main(); an import failure kills the worker

    svg = SVG.fromstring(svg_text)
    svg = svg.topicosvg(
        ndigits=opts.get("ndigits", 3),
        allow_text=bool(opts.get("allow_text", False)),
        drop_unsupported=bool(opts.get("drop_unsupported", False)),
    )
    if opts.get("clip"):
        svg.clip_to_viewbox(inplace=True)
    return svg.tostring(pretty_print=bool(opts.get("pretty", False)))


def main():
    job = json.load(sys.stdin)
    real_stdout = sys.stdout
    sys.stdout = sys.stderr
    import picosvg
    import picosvg.svg  # noqa: import problems must not be mistaken for conversion errors

    # fingerprint of the code under test: the parent refuses to compare runs made with different sources
    pkg = os.path.dirname(os.path.abspath(picosvg.__file__))
    h = hashlib.sha256()
    for fn in sorted(os.listdir(pkg)):
        if fn.endswith(".py"):
            with open(os.path.join(pkg, fn), "rb") as f:
                h.update(fn.encode() + b"\0" + f.read() + b"\0")
    fingerprint = h.hexdigest()

    docs = job["docs"]
    out = []
    texts = {}
    for i in job["seq"]:
        d = docs[i]
        try:
            s = convert(d["svg"], d.get("opts") or {})
        except Exception as e:  # noqa: compared by type only
            out.append(["exc", type(e).__name__, str(e)[:300]])
            continue
        dig = hashlib.sha256(s.encode("utf-8")).hexdigest()
        texts.setdefault(dig, s)
        out.append(["ok", dig])
    json.dump(
        {
            "out": out,
            "texts": texts,
            "picosvg": os.path.dirname(os.path.abspath(picosvg.__file__)),
            "fingerprint": fingerprint,
            "hashseed": os.environ.get("PYTHONHASHSEED"),
            "hash_probe": hash("C16-probe") & 0xFFFF,
        },
        real_stdout,
    )
    real_stdout.flush()


if __name__ == "__main__":
    main()
