"""Common runner: tiers, seeds, sharding over processes, Hypothesis driving with
collect-then-shrink, replay files, known findings, evidence.

Usage (through ./check, which sets PYTHONPATH etc.):
    python -m vlib.run Cxx quick|thorough
    python -m vlib.run Cxx --replay file.json
    python -m vlib.run Cxx --shard K N TIER OUTFILE     (internal)

A property module `vlib.props.cNN` exposes
    ID, RULE (str), ASSUMPTIONS (list of str)
    SUBCHECKS: dict name -> Sub(...)
and optionally SHARDS = {"quick": n, "thorough": n}.
A Sub is either Hypothesis-driven (strategy + check_case) or an enumeration
(enumerate(ctx, shard, nshards) calling ctx.record / ctx.bulk itself).
check_case(case) is a pure function of a JSON-able case -> Result; replay files just
re-run it.
"""
from __future__ import annotations

import dataclasses
import hashlib
import importlib
import json
import os
import subprocess
import sys
import time
import traceback
from typing import Any, Callable, Dict, List, Optional, Sequence, Tuple

HOME = os.environ.get("VERIF_HOME", os.path.dirname(os.path.dirname(os.path.abspath(__file__))))
OUT_DIR = os.path.join(HOME, "out")
EVIDENCE_DIR = os.environ.get("VERIF_EVIDENCE_DIR") or os.path.join(HOME, "evidence")
CORPUS_DIR = os.path.join(HOME, "corpus")
KNOWN_FINDINGS = os.path.join(HOME, "known_findings.json")


@dataclasses.dataclass
class Result:
    """Outcome of evaluating the oracle on one case."""

    violations: List[Tuple[str, str]] = dataclasses.field(default_factory=list)  # (clause, message)
    nontrivial: bool = False
    classes: Tuple[str, ...] = ()
    rejected: Optional[str] = None  # case not evaluated (e.g. conversion raised): reason/exception type
    excluded: Optional[str] = None  # case neutralised because of a known finding: its id
    info: Optional[dict] = None  # extra data copied to the replay file (expected/observed...)

    def bad(self, clause: str, msg: str):
        self.violations.append((clause, msg))
        return self


@dataclasses.dataclass
class Sub:
    name: str
    check_case: Callable[[Any], Result]
    strategy: Optional[Callable[["Ctx"], Any]] = None  # () -> hypothesis strategy of JSON-able cases
    examples: Optional[Dict[str, int]] = None  # per tier, PER SHARD
    enumerate: Optional[Callable[["Ctx", int, int], None]] = None
    describe: Optional[Callable[[Any], Any]] = None  # case -> sample written to evidence
    shrink_s: float = 60.0


def sha(case) -> str:
    return hashlib.sha1(json.dumps(case, sort_keys=True, default=str).encode()).hexdigest()[:16]


def derive_seed(seed: int, pid: str, sub: str, shard: int) -> int:
    h = hashlib.sha256(f"{seed}/{pid}/{sub}/{shard}".encode()).digest()
    return int.from_bytes(h[:6], "big")


class Ctx:
    """Per-process accumulator."""

    def __init__(self, pid, tier, seed, shard=0, nshards=1, deadline=None):
        self.pid, self.tier, self.seed, self.shard, self.nshards = pid, tier, seed, shard, nshards
        self.t0 = time.time()
        self.deadline = deadline
        self.evaluations = 0
        self.nontrivial = set()
        self.bulk_nontrivial = 0
        self.classes: Dict[str, int] = {}
        self.rejected: Dict[str, int] = {}
        self.excluded: Dict[str, int] = {}
        self.samples: List[Any] = []
        self.sample_slots = 4
        self.failures: Dict[Tuple[str, str], dict] = {}
        self.per_sub: Dict[str, Dict[str, int]] = {}
        self.exhaustive: Dict[str, bool] = {}
        self.budget_exhausted = False
        self.notes: List[str] = []

    def time_left(self) -> float:
        if self.deadline is None:
            return 1e9
        return self.deadline - time.time()

    def _sub(self, sub):
        return self.per_sub.setdefault(sub, {"evaluations": 0, "nontrivial": 0, "rejected": 0, "violating": 0})

    def record(self, sub: str, case, res: Result, describe=None):
        ps = self._sub(sub)
        if res.excluded:
            self.excluded[res.excluded] = self.excluded.get(res.excluded, 0) + 1
        if res.rejected is not None:
            self.rejected[res.rejected] = self.rejected.get(res.rejected, 0) + 1
            ps["rejected"] += 1
            if len([s for s in self.samples if isinstance(s, dict) and s.get("rejected")]) < 2:
                self.samples.append({"sub": sub, "rejected": res.rejected, "case": _trunc(describe(case) if describe else case)})
            return
        self.evaluations += 1
        ps["evaluations"] += 1
        for c in res.classes:
            self.classes[c] = self.classes.get(c, 0) + 1
        if res.nontrivial:
            h = sha(case)
            if h not in self.nontrivial:
                self.nontrivial.add(h)
                ps["nontrivial"] += 1
                n_sub = sum(1 for s in self.samples if isinstance(s, dict) and s.get("sub") == sub and not s.get("rejected"))
                if n_sub < self.sample_slots:
                    self.samples.append({"sub": sub, "case": _trunc(describe(case) if describe else case)})
        for clause, msg in res.violations:
            ps["violating"] += 1
            key = (sub, clause)
            size = len(json.dumps(case, default=str))
            cur = self.failures.get(key)
            if cur is None:
                self.failures[key] = {"sub": sub, "clause": clause, "msg": msg, "case": case, "count": 1, "size": size, "info": res.info}
            else:
                cur["count"] += 1
                if size < cur["size"]:
                    cur.update(msg=msg, case=case, size=size, info=res.info)

    def bulk(self, sub: str, evaluations: int, nontrivial_distinct: int, classes: Optional[Dict[str, int]] = None):
        """For enumerations whose cases are distinct by construction."""
        ps = self._sub(sub)
        self.evaluations += evaluations
        ps["evaluations"] += evaluations
        self.bulk_nontrivial += nontrivial_distinct
        ps["nontrivial"] += nontrivial_distinct
        for k, v in (classes or {}).items():
            self.classes[k] = self.classes.get(k, 0) + v

    def fail(self, sub, clause, msg, case, info=None):
        r = Result(info=info)
        r.bad(clause, msg)
        ps = self._sub(sub)
        ps["violating"] += 1
        key = (sub, clause)
        size = len(json.dumps(case, default=str))
        cur = self.failures.get(key)
        if cur is None or size < cur["size"]:
            cnt = (cur or {}).get("count", 0) + 1
            self.failures[key] = {"sub": sub, "clause": clause, "msg": msg, "case": case, "count": cnt, "size": size, "info": info}
        else:
            cur["count"] += 1

    def add_sample(self, s):
        if len(self.samples) < 12:
            self.samples.append(_trunc(s))

    def dump(self) -> dict:
        return {
            "evaluations": self.evaluations,
            "nontrivial": sorted(self.nontrivial),
            "bulk_nontrivial": self.bulk_nontrivial,
            "classes": self.classes,
            "rejected": self.rejected,
            "excluded": self.excluded,
            "samples": self.samples,
            "failures": list(self.failures.values()),
            "per_sub": self.per_sub,
            "exhaustive": self.exhaustive,
            "budget_exhausted": self.budget_exhausted,
            "notes": self.notes,
            "wall_s": time.time() - self.t0,
        }


def _trunc(x, n=2000):
    if isinstance(x, str):
        return x if len(x) <= n else x[:n] + "...[truncated]"
    s = json.dumps(x, default=str)
    if len(s) <= n:
        return x
    if isinstance(x, dict):
        return {k: _trunc(v, max(200, n // max(1, len(x)))) for k, v in x.items()}
    return s[:n] + "...[truncated]"


# ---------------------------------------------------------------------------
# Hypothesis driving


def drive(ctx: Ctx, sub: Sub):
    """Generate cases with Hypothesis, evaluate, collect failures; then shrink each bucket."""
    from hypothesis import HealthCheck, Phase, given, seed, settings

    n = (sub.examples or {}).get(ctx.tier, 100)
    n = int(n * float(os.environ.get("VERIF_SCALE", "1")))
    if n <= 0:
        return
    strat = sub.strategy(ctx)
    sd = derive_seed(ctx.seed, ctx.pid, sub.name, ctx.shard)
    base = dict(
        database=None,
        deadline=None,
        derandomize=False,
        report_multiple_bugs=False,
        suppress_health_check=list(HealthCheck),
        print_blob=False,
    )

    @seed(sd)
    @settings(max_examples=n, phases=[Phase.generate], **base)
    @given(strat)
    def collect(case):
        if ctx.time_left() < 0:
            ctx.budget_exhausted = True
            return
        res = sub.check_case(case)
        ctx.record(sub.name, case, res, sub.describe)

    collect()

    # shrink: one pass per failing bucket of this sub
    for key, f in list(ctx.failures.items()):
        if key[0] != sub.name or f.get("shrunk"):
            continue
        clause = key[1]
        t_end = time.time() + sub.shrink_s

        class _Found(Exception):
            pass

        @seed(sd)
        @settings(max_examples=n, phases=[Phase.generate, Phase.shrink], **base)
        @given(strat)
        def shrinkme(case):
            if time.time() > t_end:
                return
            res = sub.check_case(case)
            if any(c == clause for c, _ in res.violations):
                size = len(json.dumps(case, default=str))
                if size <= f["size"]:
                    msg = [m for c, m in res.violations if c == clause][0]
                    f.update(case=case, size=size, msg=msg, info=res.info)
                raise _Found()

        try:
            shrinkme()
        except _Found:
            pass
        except Exception:  # hypothesis wraps/flaky etc: keep unshrunk case
            pass
        f["shrunk"] = True


# ---------------------------------------------------------------------------
# shard / parent logic


def load_module(pid: str):
    return importlib.import_module(f"vlib.props.{pid.lower()}")


def run_shard(pid, tier, seed, shard, nshards, budget_s) -> dict:
    mod = load_module(pid)
    ctx = Ctx(pid, tier, seed, shard, nshards, deadline=time.time() + budget_s if budget_s else None)
    for name, sub in mod.SUBCHECKS.items():
        if sub.enumerate is not None:
            sub.enumerate(ctx, shard, nshards)
        if sub.strategy is not None:
            drive(ctx, sub)
    return ctx.dump()


def replay_corpus(mod, ctx: Ctx):
    """Seconds-long replay tier: committed regression cases, evaluated without Hypothesis."""
    d = os.path.join(CORPUS_DIR, mod.ID)
    n = 0
    if os.path.isdir(d):
        for fn in sorted(os.listdir(d)):
            if not fn.endswith(".json"):
                continue
            rec = json.load(open(os.path.join(d, fn)))
            sub = mod.SUBCHECKS[rec["sub"]]
            res = sub.check_case(rec["case"])
            ctx.record(sub.name, rec["case"], res, sub.describe)
            n += 1
    return n


def load_known():
    if not os.path.exists(KNOWN_FINDINGS):
        return []
    return json.load(open(KNOWN_FINDINGS)).get("findings", [])


def open_finding_ids(pid=None):
    """ids of OPEN entries of known_findings.json (optionally for one property).  Neutralisers in the
    property modules must only be active for open findings: a fixed finding suppresses nothing."""
    return {k["id"] for k in load_known() if k.get("status") == "open" and (pid is None or k.get("property") == pid)}


def check_known(mod, pid) -> List[str]:
    """Pinned replays of OPEN findings: print KNOWN-FINDING lines while they still fail.
    Fixed entries are ordinary regression cases living in corpus/."""
    lines = []
    for k in load_known():
        if k.get("property") != pid or k.get("status") != "open":
            continue
        rec = json.load(open(os.path.join(HOME, k["replay"])))
        sub = mod.SUBCHECKS[rec["sub"]]
        res = sub.check_case(rec["case"])
        if res.violations:
            lines.append(f"KNOWN-FINDING: property={pid} {k['id']}: {k['what']}")
        else:
            lines.append(f"NOTE: known finding {k['id']} of {pid} no longer reproduces on this tree")
    return lines


def write_replay(pid, f) -> str:
    os.makedirs(os.path.join(OUT_DIR, "replays", pid), exist_ok=True)
    path = os.path.join(OUT_DIR, "replays", pid, f"{f['sub']}-{_slug(f['clause'])}-{sha(f['case'])}.json")
    json.dump(
        {"property": pid, "sub": f["sub"], "clause": f["clause"], "message": f["msg"], "case": f["case"], "info": f.get("info"), "seen": f.get("count")},
        open(path, "w"),
        indent=1,
        default=str,
    )
    return path


def _slug(s):
    return "".join(ch if ch.isalnum() else "_" for ch in s)[:40]


def merge(dumps: Sequence[dict]) -> dict:
    m = {
        "evaluations": 0,
        "nontrivial": set(),
        "bulk_nontrivial": 0,
        "classes": {},
        "rejected": {},
        "excluded": {},
        "samples": [],
        "failures": {},
        "per_sub": {},
        "exhaustive": {},
        "budget_exhausted": False,
        "notes": [],
    }
    for d in dumps:
        m["evaluations"] += d["evaluations"]
        m["nontrivial"].update(d["nontrivial"])
        m["bulk_nontrivial"] += d["bulk_nontrivial"]
        for key in ("classes", "rejected", "excluded"):
            for k, v in d[key].items():
                m[key][k] = m[key].get(k, 0) + v
        for s, ps in d["per_sub"].items():
            t = m["per_sub"].setdefault(s, {})
            for k, v in ps.items():
                t[k] = t.get(k, 0) + v
        for k, v in d["exhaustive"].items():
            m["exhaustive"][k] = m["exhaustive"].get(k, True) and v
        m["budget_exhausted"] |= d["budget_exhausted"]
        m["notes"].extend(x for x in d["notes"] if x not in m["notes"])
        for f in d["failures"]:
            key = (f["sub"], f["clause"])
            cur = m["failures"].get(key)
            if cur is None:
                m["failures"][key] = dict(f)
            else:
                cnt = cur["count"] + f["count"]
                if f["size"] < cur["size"]:
                    m["failures"][key] = dict(f)
                m["failures"][key]["count"] = cnt
    # samples: round robin over shards, at most 4 per sub
    per = {}
    for d in dumps:
        for s in d["samples"]:
            k = s.get("sub") if isinstance(s, dict) else None
            k = (k, bool(isinstance(s, dict) and s.get("rejected")))
            if per.get(k, 0) < 3:
                per[k] = per.get(k, 0) + 1
                m["samples"].append(s)
    return m


BUDGET = {"quick": 240.0, "thorough": 3000.0}
DEFAULT_SHARDS = {"quick": 4, "thorough": 16}


def main(argv):
    if len(argv) < 2:
        print(__doc__)
        return 2
    pid = argv[0].upper()
    seed = int(os.environ.get("VERIF_SEED", "1") or "1")
    if argv[1] == "--shard":
        k, n, tier, out = int(argv[2]), int(argv[3]), argv[4], argv[5]
        budget = float(os.environ.get("VERIF_BUDGET_S", BUDGET[tier]))
        try:
            d = run_shard(pid, tier, seed, k, n, budget)
        except BaseException:
            traceback.print_exc()
            return 2
        json.dump(d, open(out, "w"), default=str)
        return 0

    mod = load_module(pid)
    if argv[1] == "--replay":
        rec = json.load(open(argv[2]))
        sub = mod.SUBCHECKS[rec["sub"]]
        res = sub.check_case(rec["case"])
        if res.rejected:
            print(f"replay: case rejected ({res.rejected})")
        for clause, msg in res.violations:
            print(f"replay: [{clause}] {msg}")
        if res.violations:
            print(f"VIOLATION property={pid} replay={os.path.abspath(argv[2])}")
            return 1
        print("replay: property holds on this case")
        return 0

    tier = argv[1]
    if tier not in ("quick", "thorough"):
        print(f"unknown tier {tier}")
        return 2
    t0 = time.time()
    os.makedirs(EVIDENCE_DIR, exist_ok=True)
    ev_path = os.path.join(EVIDENCE_DIR, f"{pid}.json")

    # 1. known findings + corpus replay (in this process)
    known_lines = check_known(mod, pid)
    for l in known_lines:
        print(l)
    ctx0 = Ctx(pid, tier, seed)
    n_corpus = replay_corpus(mod, ctx0)

    # 2. shards
    nsh = int(os.environ.get("VERIF_SHARDS", getattr(mod, "SHARDS", DEFAULT_SHARDS).get(tier, DEFAULT_SHARDS[tier])))
    tmpdir = os.path.join(OUT_DIR, "tmp", f"{pid}-{os.getpid()}")
    os.makedirs(tmpdir, exist_ok=True)
    procs = []
    for k in range(nsh):
        out = os.path.join(tmpdir, f"shard{k}.json")
        log = open(os.path.join(tmpdir, f"shard{k}.log"), "w")
        p = subprocess.Popen([sys.executable, "-m", "vlib.run", pid, "--shard", str(k), str(nsh), tier, out], stdout=log, stderr=subprocess.STDOUT)
        procs.append((p, out, log))
    dumps = [ctx0.dump()]
    harness_error = False
    hard = float(os.environ.get("VERIF_BUDGET_S", BUDGET[tier])) * 1.5 + 120
    for p, out, log in procs:
        try:
            rc = p.wait(timeout=max(1.0, hard - (time.time() - t0)))
        except subprocess.TimeoutExpired:
            p.kill()
            rc = -9
        log.close()
        if rc != 0 or not os.path.exists(out):
            harness_error = True
            sys.stderr.write(f"HARNESS-ERROR: shard exited rc={rc}; log:\n")
            sys.stderr.write(open(log.name).read()[-3000:] + "\n")
        else:
            dumps.append(json.load(open(out)))
    m = merge(dumps)
    for fn in os.listdir(tmpdir):
        os.remove(os.path.join(tmpdir, fn))
    os.rmdir(tmpdir)

    # 3. report
    failures = sorted(m["failures"].values(), key=lambda f: (f["sub"], f["clause"]))
    replays = []
    for f in failures:
        path = write_replay(pid, f)
        replays.append(path)
        print(f"[{f['sub']}:{f['clause']}] {f['msg']}  (seen {f['count']}x)")
        print(f"VIOLATION property={pid} replay={path}")
    distinct = len(m["nontrivial"]) + m["bulk_nontrivial"]
    evidence = {
        "property_id": pid,
        "tier": tier,
        "seed": seed,
        "level": "exploration",
        "coverage": {
            "evaluations": m["evaluations"],
            "distinct_nontrivial": distinct,
            "rule": mod.RULE,
            "samples": m["samples"][:12],
            "exhaustive": bool(m["exhaustive"]) and all(m["exhaustive"].values()),
            "exhaustive_subdomains": m["exhaustive"],
            "per_subcheck": m["per_sub"],
            "class_histogram": dict(sorted(m["classes"].items())),
            "rejected_by_reason": m["rejected"],
            "excluded_by_known_finding": m["excluded"],
            "corpus_replayed": n_corpus,
            "shards": nsh,
            "budget_exhausted": m["budget_exhausted"],
            "known_finding_lines": known_lines,
            "notes": m["notes"],
            "violation_replays": replays,
        },
        "assumptions": getattr(mod, "ASSUMPTIONS", []),
        "wall_s": round(time.time() - t0, 2),
        "violations": len(failures),
    }
    json.dump(evidence, open(ev_path, "w"), indent=1, default=str)
    print(
        f"{pid} {tier} seed={seed}: evaluations={m['evaluations']} distinct_nontrivial={distinct} "
        f"rejected={sum(m['rejected'].values())} excluded={sum(m['excluded'].values())} violations={len(failures)} wall={evidence['wall_s']}s"
    )
    if failures:
        return 1
    return 2 if harness_error else 0


if __name__ == "__main__":
    try:
        rc = main(sys.argv[1:])
    except SystemExit:
        raise
    except BaseException:
        traceback.print_exc()
        rc = 2
    sys.exit(rc)
