"""Reference pieces for C20 (no import of picosvg): command-for-command path interpreter,
affine application, re-spelling, error measures, arc transformation and true-curve comparison.

A normalised command is (K, cur_before, pts, params) with K in "MLQCAZ", absolute points,
params = (rx, ry, rot_deg, large, sweep) for arcs else None.  H/V become L, S/T become C/Q.
Affine 6-tuples (a,b,c,d,e,f) map (x,y) -> (a*x+c*y+e, b*x+d*y+f).

Self-test:  python -m vlib.c20_ref
"""
from __future__ import annotations

import math

import numpy as np

from vlib.refsvg import arcref

NARGS = {"m": 2, "z": 0, "l": 2, "h": 1, "v": 1, "c": 6, "s": 4, "q": 4, "t": 2, "a": 7}


class PathError(Exception):
    pass


def _fmt(x):
    x = float(x)
    if x.is_integer() and abs(x) < 1e15:
        return str(int(x))
    return repr(x)


def to_d(cmds):
    return " ".join(c + ",".join(_fmt(a) for a in args) for c, args in cmds)


def normalise(cmds):
    out = []
    cur = (0.0, 0.0)
    start = (0.0, 0.0)
    last_c = last_q = None
    first = True
    for c, a in cmds:
        lc = c.lower()
        if lc not in NARGS or len(a) != NARGS[lc]:
            raise PathError(f"bad command {c}{list(a)}")
        if first and lc != "m":
            raise PathError("no initial moveto")
        rel = c.islower() and not first
        first = False
        ox, oy = cur if rel else (0.0, 0.0)
        before = cur
        nc = nq = None
        if lc == "m":
            p = (a[0] + ox, a[1] + oy)
            out.append(("M", before, [p], None))
            cur = start = p
        elif lc == "z":
            out.append(("Z", before, [], None))
            cur = start
        elif lc == "l":
            p = (a[0] + ox, a[1] + oy)
            out.append(("L", before, [p], None))
            cur = p
        elif lc == "h":
            p = (a[0] + ox, cur[1])
            out.append(("L", before, [p], None))
            cur = p
        elif lc == "v":
            p = (cur[0], a[0] + oy)
            out.append(("L", before, [p], None))
            cur = p
        elif lc == "c":
            c1, c2, p = (a[0] + ox, a[1] + oy), (a[2] + ox, a[3] + oy), (a[4] + ox, a[5] + oy)
            out.append(("C", before, [c1, c2, p], None))
            nc, cur = c2, p
        elif lc == "s":
            c1 = (2 * cur[0] - last_c[0], 2 * cur[1] - last_c[1]) if last_c else cur
            c2, p = (a[0] + ox, a[1] + oy), (a[2] + ox, a[3] + oy)
            out.append(("C", before, [c1, c2, p], None))
            nc, cur = c2, p
        elif lc == "q":
            c1, p = (a[0] + ox, a[1] + oy), (a[2] + ox, a[3] + oy)
            out.append(("Q", before, [c1, p], None))
            nq, cur = c1, p
        elif lc == "t":
            c1 = (2 * cur[0] - last_q[0], 2 * cur[1] - last_q[1]) if last_q else cur
            p = (a[0] + ox, a[1] + oy)
            out.append(("Q", before, [c1, p], None))
            nq, cur = c1, p
        else:  # a
            p = (a[5] + ox, a[6] + oy)
            out.append(("A", before, [p], (abs(a[0]), abs(a[1]), a[2], int(bool(a[3])), int(bool(a[4])))))
            cur = p
        last_c, last_q = nc, nq
    return out


# ------------------------------------------------------------------ affine helpers


def mp(T, p):
    a, b, c, d, e, f = T
    return (a * p[0] + c * p[1] + e, b * p[0] + d * p[1] + f)


def compose(*Ts):
    """Apply left to right: compose(T1, T2)(p) == T2(T1(p))."""
    a, b, c, d, e, f = 1.0, 0.0, 0.0, 1.0, 0.0, 0.0
    for T in Ts:
        a2, b2, c2, d2, e2, f2 = T
        a, b, c, d, e, f = (
            a2 * a + c2 * b,
            b2 * a + d2 * b,
            a2 * c + c2 * d,
            b2 * c + d2 * d,
            a2 * e + c2 * f + e2,
            b2 * e + d2 * f + f2,
        )
    return (a, b, c, d, e, f)


def rot(deg):
    q = deg % 360.0
    exact = {0.0: (1.0, 0.0), 90.0: (0.0, 1.0), 180.0: (-1.0, 0.0), 270.0: (0.0, -1.0)}
    if q in exact:
        co, si = exact[q]
    else:
        co, si = math.cos(math.radians(deg)), math.sin(math.radians(deg))
    return (co, si, -si, co, 0.0, 0.0)


def transform_arc_params(T, params):
    """Endpoint-parameterisation of the image ellipse (uncorrected radii transform consistently
    because Lambda is an affine invariant)."""
    rx, ry, rotd, large, sweep = params
    a, b, c, d = T[:4]
    det = a * d - b * c
    if det < 0:
        sweep = 1 - sweep
    phi = math.radians(rotd)
    if b == 0 and c == 0 and rotd % 180.0 == 0:
        return (abs(a) * rx, abs(d) * ry, rotd, large, sweep)
    m = max(abs(a), abs(b), abs(c), abs(d), 1e-300)
    same = abs(a - d) <= 1e-12 * m and abs(b + c) <= 1e-12 * m
    mirr = abs(a + d) <= 1e-12 * m and abs(b - c) <= 1e-12 * m
    if same or mirr:
        k = math.sqrt(abs(det))
        ux, uy = a * math.cos(phi) + c * math.sin(phi), b * math.cos(phi) + d * math.sin(phi)
        return (k * rx, k * ry, math.degrees(math.atan2(uy, ux)), large, sweep)
    M = np.array([[a, c], [b, d]]) @ np.array([[math.cos(phi), -math.sin(phi)], [math.sin(phi), math.cos(phi)]]) @ np.diag([rx, ry])
    U, S, _ = np.linalg.svd(M)
    return (float(S[0]), float(S[1]), math.degrees(math.atan2(U[1, 0], U[0, 0])), large, sweep)


def apply(norm, T):
    """Image of a normalised path: list of (K, pts, params)."""
    out = []
    pure_translation = tuple(T[:4]) == (1, 0, 0, 1) or tuple(float(v) for v in T[:4]) == (1.0, 0.0, 0.0, 1.0)
    for K, _, pts, params in norm:
        # a translation leaves arc parameters exactly as written (re-deriving the rotation would respell
        # 270 as -90.00000000000001, which is the same arc but not "the same shape, shifted")
        ap = None
        if K == "A":
            ap = tuple(params) if pure_translation else transform_arc_params(T, params)
        out.append((K, [mp(T, p) for p in pts], ap))
    return out


def spell(items, abs_flags):
    """(K, pts, params) list -> raw commands, absolute where the flag is set (first moveto always)."""
    cmds = []
    cur = start = (0.0, 0.0)
    for i, ((K, pts, params), ab) in enumerate(zip(items, abs_flags)):
        ab = ab or i == 0
        if K == "Z":
            cmds.append(["Z" if ab else "z", []])
            cur = start
            continue
        ox, oy = (0.0, 0.0) if ab else cur
        flat = []
        for p in pts:
            flat += [p[0] - ox, p[1] - oy]
        if K == "A":
            flat = list(params) + flat
        cmds.append([K if ab else K.lower(), flat])
        cur = pts[-1]
        if K == "M":
            start = cur
    return cmds


_XY = {"m": ((0,), (1,)), "l": ((0,), (1,)), "t": ((0,), (1,)), "h": ((0,), ()), "v": ((), (0,)), "c": ((0, 2, 4), (1, 3, 5)), "s": ((0, 2), (1, 3)), "q": ((0, 2), (1, 3)), "a": ((5,), (6,)), "z": ((), ())}


def shift_written(cmds, dx, dy):
    """Translate a path as written: absolute arguments move, relative ones stay."""
    out = []
    for i, (c, a) in enumerate(cmds):
        a = list(a)
        if c.isupper() or i == 0:
            xs, ys = _XY[c.lower()]
            for j in xs:
                a[j] = a[j] + dx
            for j in ys:
                a[j] = a[j] + dy
        out.append([c, a])
    return out


def control_points(norm):
    return [p for _, _, pts, _ in norm for p in pts]


def max_triangle_area(pts):
    """Area of a large triangle spanned by the points (greedy: far pair, then farthest from their line)."""
    p0 = pts[0]
    p1 = max(pts, key=lambda p: (p[0] - p0[0]) ** 2 + (p[1] - p0[1]) ** 2)
    p0 = max(pts, key=lambda p: (p[0] - p1[0]) ** 2 + (p[1] - p1[1]) ** 2)
    ux, uy = p1[0] - p0[0], p1[1] - p0[1]
    return max(abs(ux * (p[1] - p0[1]) - uy * (p[0] - p0[0])) for p in pts) / 2.0


def first_edge(norm):
    for K, cur, pts, _ in norm:
        if K in "LQCA":
            v = (pts[-1][0] - cur[0], pts[-1][1] - cur[1])
            if v != (0.0, 0.0):
                return v
    return None


# ------------------------------------------------------------------ error measures


def worst_errors(n1, n2, A):
    """(worst delta-form error, worst absolute error, index, index) of A(n1) against n2.
    Delta form: every point minus the current point before its command; first moveto absolute."""
    w_rel = w_abs = 0.0
    i_rel = i_abs = 0
    for i, ((_, cur1, pts1, _), (_, cur2, pts2, _)) in enumerate(zip(n1, n2)):
        ac = mp(A, cur1)
        for p, q in zip(pts1, pts2):
            ap = mp(A, p)
            ea = max(abs(ap[0] - q[0]), abs(ap[1] - q[1]))
            if i == 0:
                er = ea
            else:
                er = max(abs((ap[0] - ac[0]) - (q[0] - cur2[0])), abs((ap[1] - ac[1]) - (q[1] - cur2[1])))
            if not (ea <= w_abs):
                w_abs, i_abs = ea, i
            if not (er <= w_rel):
                w_rel, i_rel = er, i
    return w_rel, w_abs, i_rel, i_abs


def raw_error(c1, c2):
    """Worst difference of the numbers as written, None if letters / counts differ."""
    if len(c1) != len(c2):
        return None
    w = 0.0
    for (l1, a1), (l2, a2) in zip(c1, c2):
        if l1 != l2 or len(a1) != len(a2):
            return None
        for x, y in zip(a1, a2):
            w = max(w, abs(x - y))
    return w


# ------------------------------------------------------------------ arcs


def arcs_ill_conditioned(norm, tol):
    for K, cur, pts, params in norm:
        if K != "A":
            continue
        rx, ry, rotd, large, sweep = params
        if cur == pts[0]:
            return "coincident-endpoints"
        if rx == 0 or ry == 0:
            return "zero-radius"
        if min(rx, ry) < 50 * tol:
            return "radius<50tol"
        arc = arcref.centre_param(cur[0], cur[1], rx, ry, rotd, large, sweep, pts[0][0], pts[0][1])
        if arc is None:
            return "degenerate"
        if 0.7 < arc.lam < 1.5:
            return "lambda-near-1"
        if arc.lam > 25:
            return "lambda>25"
    return None


def _arc_points(cur, params, end, n):
    rx, ry, rotd, large, sweep = params
    arc = arcref.centre_param(cur[0], cur[1], rx, ry, rotd, large, sweep, end[0], end[1])
    return arc, [arc.point(arc.theta1 + arc.dtheta * i / n) for i in range(n + 1)]


def _dist_to_polyline(P, Q):
    P = np.asarray(P, dtype=float)
    Q = np.asarray(Q, dtype=float)
    A, B = Q[:-1], Q[1:]
    d = B - A
    L2 = (d * d).sum(axis=1)
    L2 = np.where(L2 == 0, 1.0, L2)
    w = P[:, None, :] - A[None, :, :]
    t = np.clip((w * d[None, :, :]).sum(axis=2) / L2[None, :], 0.0, 1.0)
    proj = A[None, :, :] + t[:, :, None] * d[None, :, :]
    return np.sqrt(((P[:, None, :] - proj) ** 2).sum(axis=2)).min(axis=1)


def arc_curve_mismatch(n1, n2, A, tol):
    """Compare the image under A of every true arc of n1 with the true arc of n2."""
    N = len(n1)
    for i, ((K, cur1, pts1, par1), (_, cur2, pts2, par2)) in enumerate(zip(n1, n2)):
        if K != "A":
            continue
        arc1, fine1 = _arc_points(cur1, par1, pts1[0], 128)
        arc2, fine2 = _arc_points(cur2, par2, pts2[0], 128)
        img = [mp(A, p) for p in fine1]
        d12 = float(_dist_to_polyline(img[::4], fine2).max())
        d21 = float(_dist_to_polyline(fine2[::4], img).max())
        rmax = max(arc2.rx, arc2.ry)
        bound = 12 * N * tol + 0.03 * rmax
        if max(d12, d21) > bound:
            return i, (
                f"command #{i}: the arc of s1 ({par1}, from {cur1} to {pts1[0]}) mapped by the reported transform is "
                f"{max(d12, d21):.6g} away from the arc of s2 ({par2}, from {cur2} to {pts2[0]}); allowed {bound:.6g}"
            )
    return None


# ------------------------------------------------------------------ self-test


def _selftest():
    from vlib.refsvg import geom

    cmds = [("M", (1, 2)), ("h", (5,)), ("V", (9,)), ("c", (1, 1, 2, 2, 3, 0)), ("s", (1, 1, 2, 0)), ("Q", (0, 0, 5, 5)), ("t", (3, 3)), ("z", ()), ("m", (2, 2)), ("l", (1, 0)), ("T", (4, 4)), ("S", (1, 1, 0, 0)), ("Z", ()), ("l", (1, 1))]
    n = normalise(cmds)
    subs = geom.interpret(cmds)
    segs = [s for sub in subs for s in sub["segs"]]
    mine = [(K, cur, pts) for K, cur, pts, _ in n if K in "LQC"]
    assert len(segs) == len(mine)
    for s, (K, cur, pts) in zip(segs, mine):
        assert s[0] == K and tuple(s[1]) == cur and [tuple(p) for p in s[2:]] == pts, (s, K, cur, pts)
    # z returns to the start, m after z is relative to it
    assert n[8][2] == [(3.0, 4.0)], n[8]
    # compose / rot
    T = compose(rot(90), (2, 0, 0, 2, 0, 0), (1, 0, 0, 1, 5, 7))
    assert mp(T, (1, 0)) == (5.0, 9.0), mp(T, (1, 0))
    # spell + normalise round trip
    items = apply(n, T)
    for flags in ([True] * len(items), [False] * len(items)):
        back = normalise([(c, tuple(a)) for c, a in spell(items, flags)])
        for (K, pts, _), (K2, _, pts2, _) in zip(items, back):
            assert K == K2 and all(abs(p[0] - q[0]) < 1e-9 and abs(p[1] - q[1]) < 1e-9 for p, q in zip(pts, pts2))
    w = worst_errors(n, normalise([(c, tuple(a)) for c, a in spell(items, [True] * len(items))]), T)
    assert w[0] < 1e-9 and w[1] < 1e-9, w
    # arcs: transformed parameters describe the image curve
    arcs = [("M", (3, 4)), ("a", (50, 20, 30, 0, 1, 40, 25)), ("A", (10, 30, 0, 1, 0, 0, 0)), ("a", (5, 5, 0, 1, 1, 60, 0))]
    na = normalise(arcs)
    for T in [compose(rot(37)), (2, 0, 0, 0.5, 3, 4), (-1, 0, 0, 1, 0, 0), (1.5, 0.3, -0.7, 2.0, 9, 9), (0.6, 0.8, 0.8, -0.6, 1, 1), compose(rot(90))]:
        img = normalise([(c, tuple(a)) for c, a in spell(apply(na, T), [True] * len(na))])
        assert arc_curve_mismatch(na, img, T, 1e-9) is None
        for (K, cur1, pts1, par1), (_, cur2, pts2, par2) in zip(na, img):
            if K != "A":
                continue
            _, f1 = _arc_points(cur1, par1, pts1[0], 64)
            a2, f2 = _arc_points(cur2, par2, pts2[0], 2048)
            d = float(_dist_to_polyline([mp(T, p) for p in f1], f2).max())
            assert d < 1e-4 * max(a2.rx, a2.ry), (T, par1, par2, d)
    # a wrong answer is noticed: rotating an ellipse arc without rotating its axes
    s1 = normalise([("M", (0, 0)), ("a", (50, 20, 0, 0, 1, 60, 10))])
    s2 = normalise([("M", (0, 0)), ("a", (50, 20, 0, 0, 1, -10, 60))])
    assert arc_curve_mismatch(s1, s2, rot(90), 0.01)[0] == 1
    print("c20_ref self-test ok")


if __name__ == "__main__":
    _selftest()
