"""Union of the document families, shared by C07, C08, C14 (and C01 keeps its own copy of the table)."""
from __future__ import annotations

from hypothesis import strategies as st

from vlib.gen import docs

CFGS = {
    "structural": docs.Cfg(transforms=True, groups=True, use=True, nested=True, display=True, translucent_fill=True),
    "clip": docs.Cfg(transforms=True, groups=True, use=True, nested=False, display=False, clip=True, max_leaves=5),
    "stroke": docs.Cfg(transforms=True, groups=True, use=True, nested=False, display=True, stroke=True, lines=True, max_leaves=4),
    "cascade": docs.Cfg(transforms=True, groups=True, use=True, nested=False, display=True, cascade=True, opacity=True, max_leaves=6, tiny_opacity=True),
    "gradient": docs.Cfg(transforms=True, groups=True, use=True, nested=False, display=True, gradients=True, opacity=True, max_leaves=6, tiny_opacity=True),
    "gradient-many": docs.Cfg(transforms=True, groups=True, use=False, nested=False, display=False, gradients=True, gradient_bias=0, max_gradients=5, max_leaves=8),
    "gradient+stroke": docs.Cfg(transforms=True, groups=True, use=True, nested=True, display=True, gradients=True, stroke=True, clip=True, max_leaves=5, gradient_stroke=True),
    "mixed": docs.Cfg(transforms=True, groups=True, use=True, nested=True, display=True, clip=True, stroke=True, lines=True, opacity=True, max_leaves=6, tiny_opacity=True),
}


def _both_hooks(draw, cx, n):
    docs.stroke_hook(draw, cx, n)
    if draw(st.integers(0, 2)) == 0:
        docs.cascade_hook(draw, cx, n)


def _invisible_hook(draw, cx, n):
    """Cascade hook biased towards invisible content (opacity 0, display none, fill none)."""
    docs.cascade_hook(draw, cx, n)
    if n["tag"] not in ("g", "use") and draw(st.integers(0, 4)) == 0:
        k = draw(st.sampled_from(["opacity", "fill-opacity", "display", "fill"]))
        n["a"].pop(k, None)
        n["s"].pop(k, None)
        n["a"][k] = {"opacity": "0", "fill-opacity": "0", "display": "none", "fill": "none"}[k]
        cx.feat.add("invisible-leaf")


HOOKS = {"structural": None, "clip": None, "stroke": docs.stroke_hook, "cascade": _invisible_hook, "gradient": _invisible_hook, "gradient-many": None, "gradient+stroke": docs.stroke_hook, "mixed": _both_hooks}


@st.composite
def any_document_ast(draw, families=None):
    fam = draw(st.sampled_from(sorted(families or CFGS)))
    root, feat = draw(docs.document_ast(CFGS[fam], hook=HOOKS[fam], root_hook=docs.root_cascade_hook if fam in ("cascade", "mixed", "gradient") else None))
    return root, list(feat) + ["family:" + fam]


@st.composite
def any_document(draw, families=None):
    root, feat = draw(any_document_ast(families))
    return {"svg": docs.serialize(root, root=True), "feat": feat}
