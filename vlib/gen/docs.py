"""Hypothesis strategies producing SVG documents as text (via a small dict AST so that
shrinking removes elements/attributes structurally).

A node is {"tag": str, "a": {attr: value}, "s": {style-prop: value}, "c": [children]}.
document(cfg) draws {"svg": text, "feat": [feature labels]}.
Soundness fences (never generated): percentages/units, inherit/currentColor, clipPathUnits,
symbol, negative sizes, odd point lists, presentation attributes on nested svg, transform on a
clipPath that also has clip-path, explicit rx="0" with ry>0 (picosvg's dataclass cannot tell 0 from
unspecified), ids outside [A-Za-z0-9_-].
"""
from __future__ import annotations

import copy
import re
import zlib
import math
from decimal import Decimal
from dataclasses import dataclass, field
from typing import List, Optional

from hypothesis import strategies as st

NS = 'xmlns="http://www.w3.org/2000/svg" xmlns:xlink="http://www.w3.org/1999/xlink"'

PALETTE = [
    "red", "#00f", "#00ff00", "rgb(255,165,0)", "purple", "#0ff", "magenta", "#808000", "navy", "#ff69b4",
    "teal", "#a52a2a", "gold", "#4b0082", "coral", "gray",
]


@dataclass
class Cfg:
    transforms: bool = True
    groups: bool = True
    use: bool = True
    nested: bool = True
    display: bool = True
    clip: bool = False
    clip_rule_on_clippath: bool = True
    stroke: bool = False
    cascade: bool = False  # paint/opacity at every level via attr and/or style
    opacity: bool = False
    gradients: bool = False
    max_leaves: int = 6
    max_depth: int = 4
    overlap: bool = False
    lines: bool = False  # <line> elements (need strokes to be visible)
    translucent_fill: bool = False
    distinct_fill: bool = True
    gradient_bias: int = 2  # a leaf gets a gradient fill with probability 1/(bias+1)
    max_gradients: int = 3
    micro: bool = True  # allow one micro-scale group (content in huge units under scale(2e-5))
    gradient_stroke: bool = False  # stroke paint may be a gradient reference (structural checks only: bbox units then refer to another box)
    tiny_opacity: bool = False  # opacities whose products round to 0 (0.02 x 0.03); for checks that do not compare renderings
    twins: bool = True  # allow a "twin": a copy of a leaf with identical geometry and one paint property altered


def fmt(x: float) -> str:
    x = round(float(x), 3)
    if x == int(x):
        return str(int(x))
    return repr(x)


def node(tag, a=None, s=None, c=None):
    return {"tag": tag, "a": dict(a or {}), "s": dict(s or {}), "c": list(c or [])}


def _esc(v: str) -> str:
    return str(v).replace("&", "&amp;").replace("<", "&lt;").replace('"', "&quot;")


# values that would hide or change the element if they won over the real declaration that follows them
_LOSING = {"fill": "none", "stroke": "none", "stroke-width": "0", "opacity": "0", "fill-opacity": "0", "stroke-opacity": "0",
           "display": "none", "fill-rule": "evenodd", "clip-rule": "evenodd", "stroke-dasharray": "1 9", "stroke-linecap": "square",
           "stroke-linejoin": "bevel", "stop-color": "#000", "stop-opacity": "0", "clip-path": "none"}


def _style_text(decls) -> str:
    """The style attribute for a dict of declarations, in one of several legal spellings chosen by a checksum of
    the declarations (a pure function of the node, so no random draw is spent and replay is exact): plain; a
    property declared twice, the losing value first (CSS: the last declaration wins); a vendor property such as
    -inkscape-stroke in front (not a valid XML name, to be skipped without losing what follows); blanks around
    ':' and ';' and a trailing semicolon."""
    items = list(decls.items())
    h = zlib.crc32(repr(items).encode())
    pre = []
    if h % 4 == 0:
        k, v = items[(h >> 4) % len(items)]
        lose = _LOSING.get(k)
        if lose is not None and lose != v and not (k in ("fill-rule", "clip-rule") and v == "evenodd"):
            pre.append((k, lose))
    if (h >> 8) % 5 == 0:
        pre.insert(0, ("-inkscape-stroke", "none"))
    sep, col, tail = ";", ":", ""
    if (h >> 12) % 4 == 0:
        sep, col, tail = " ; ", " : ", " ;"
    elif (h >> 12) % 4 == 1:
        tail = ";"
    return sep.join(f"{k}{col}{v}" for k, v in pre + items) + tail


_STYLE_REPEAT_RE = re.compile(r'style="(?:[^"]*;)?\s*([a-z-]+)\s*:[^;"]*;(?:[^"]*;)?\s*\1\s*:')


def style_spelling_feats(text: str):
    f = []
    if _STYLE_REPEAT_RE.search(text):
        f.append("style-repeated-property")
    if "-inkscape-stroke" in text:
        f.append("style-vendor-property-first")
    return f


def serialize(n, root=False, extra_ns: str = "", prolog: str = "") -> str:
    """Special tags: '#comment' / '#pi' / '#raw' (text given in n['a']['text']) for noise insertion."""
    tag = n["tag"]
    if tag == "#comment":
        return f"<!--{n['a']['text']}-->"
    if tag == "#pi":
        return f"<?{n['a']['text']}?>"
    if tag == "#raw":
        return n["a"]["text"]
    attrs = dict(n["a"])
    if n["s"]:
        attrs["style"] = _style_text(n["s"])
    parts = [prolog, f"<{tag}"]
    if root:
        parts.insert(1, "".join(serialize(x) for x in n.get("_before", ())))  # comments / PIs between prolog and root
        parts.append(" " + NS + ((" " + extra_ns) if extra_ns else ""))
    for k, v in attrs.items():
        parts.append(f' {k}="{_esc(v)}"')
    if n["c"]:
        parts.append(">")
        for ch in n["c"]:
            parts.append(serialize(ch))
        parts.append(f"</{tag}>")
    else:
        parts.append("/>")
    if root:
        parts.append("".join(serialize(x) for x in n.get("_after", ())))  # comments / PIs after the root element
    return "".join(parts)


# ------------------------------------------------------------------ primitives


class Box:
    def __init__(self, x, y, w, h):
        self.x, self.y, self.w, self.h = x, y, w, h

    @property
    def ext(self):
        return max(self.w, self.h)


@st.composite
def viewbox(draw):
    x = draw(st.sampled_from([0, 0, 0, -20, 15.5, -100, 30]))
    y = draw(st.sampled_from([0, 0, 0, -10, 7.25, 50, -60]))
    w = draw(st.sampled_from([100, 128, 24, 200, 64, 300, 1000, 48.5]))
    h = draw(st.sampled_from([100, 128, 24, 150, 64, 80, 500, 36]))
    return Box(float(x), float(y), float(w), float(h))


def _frac():
    return st.integers(-10, 110).map(lambda k: k / 100.0)


def _px(draw, box):
    return round(box.x + draw(_frac()) * box.w, 2)


def _py(draw, box):
    return round(box.y + draw(_frac()) * box.h, 2)


def _size(draw, box, lo=8, hi=70):
    return round(draw(st.integers(lo, hi)) / 100.0 * box.ext, 2)


@st.composite
def transform_list(draw, box, allow_degenerate=False):
    if draw(st.integers(0, 9)) == 0:
        # a single operation close to the identity (all six coefficients within ~0.1 of it): moves content far from the
        # origin visibly, so it must not be mistaken for "no transform"
        return draw(st.sampled_from(["rotate(5)", "rotate(-4)", "rotate(3)", "scale(1.08)", "scale(0.93)", "scale(1.06 0.95)", "skewX(5)", "skewY(-4)", "matrix(1 0.06 -0.05 1 0 0)", "matrix(0.97 0 0 1.04 0.05 -0.05)"]))
    n = draw(st.sampled_from([1, 1, 2, 2, 3]))
    ops = []
    sep = draw(st.sampled_from([" ", ",", ", ", "  "]))
    for _ in range(n):
        k = draw(st.sampled_from(["translate", "translate", "scale", "rotate", "rotate", "skewX", "skewY", "matrix"]))
        if k == "translate":
            tx = round(draw(st.integers(-40, 40)) / 100 * box.w, 2)
            sx_ = fmt(tx)
            if tx and draw(st.integers(0, 5)) == 0:
                # the same number in exponent notation, with and without a sign in the exponent (3e1, 30E-1, 0.3e+2)
                d_ = Decimal(sx_)
                sx_ = draw(st.sampled_from([f"{d_.scaleb(-1):f}e1", f"{d_.scaleb(-1):f}E1", f"{d_.scaleb(1):f}e-1", f"{d_.scaleb(-2):f}e+2"]))
            if draw(st.booleans()):
                ops.append(f"translate({sx_}{sep}{fmt(round(draw(st.integers(-40, 40)) / 100 * box.h, 2))})")
            else:
                ops.append(f"translate({sx_})")
        elif k == "scale":
            sx = draw(st.sampled_from([0.5, 0.75, 1.5, 2, -1, 1.25, -0.8, 0.6]))
            if draw(st.booleans()):
                sy = draw(st.sampled_from([0.5, 0.75, 1.5, 2, -1, 1, 1.3]))
                ops.append(f"scale({fmt(sx)}{sep}{fmt(sy)})")
            else:
                ops.append(f"scale({fmt(sx)})")
        elif k == "rotate":
            a = draw(st.sampled_from([15, 30, 45, 90, -20, 180, 270, -75, 10.5, 360, 400]))
            if draw(st.booleans()):
                ops.append(f"rotate({fmt(a)}{sep}{fmt(_px(draw, box))}{sep}{fmt(_py(draw, box))})")
            else:
                ops.append(f"rotate({fmt(a)})")
        elif k in ("skewX", "skewY"):
            ops.append(f"{k}({fmt(draw(st.sampled_from([10, 20, 30, -15, 45, -40])))})")
        else:
            a = draw(st.sampled_from([1, 0.8, 1.2, -1, 0.5]))
            d = draw(st.sampled_from([1, 0.9, 1.1, -1, 0.7]))
            b = draw(st.sampled_from([0, 0.2, -0.3, 0.5]))
            c = draw(st.sampled_from([0, -0.2, 0.3, 0.4]))
            if abs(a * d - b * c) < 0.2:
                b = 0
            e = round(draw(st.integers(-30, 30)) / 100 * box.w, 2)
            f = round(draw(st.integers(-30, 30)) / 100 * box.h, 2)
            ops.append("matrix(" + sep.join(fmt(v) for v in (a, b, c, d, e, f)) + ")")
    return draw(st.sampled_from([" ", "", ", "])).join(ops) if len(ops) > 1 else ops[0]


@st.composite
def path_data(draw, box, closed_bias=True, wild=False):
    """Random path over all 20 commands, coordinates around the box.

    Unless `wild`, curve control points stay near the chord (within ~60 % of the chord length of the
    segment's end points): heavily self-intersecting curve chains make skia-pathops return wrong regions
    (engine finding ENGINE, see DESIGN.md), which would mask the wrapper logic this generator is after.
    The current point is tracked so that relative and absolute spellings are both tame."""
    nsub = draw(st.sampled_from([1, 1, 1, 2]))
    out = []
    cur = [0.0, 0.0]
    start = [0.0, 0.0]

    def P():
        return (_px(draw, box), _py(draw, box))

    def near(a, b):
        # a point near the segment a-b
        t = draw(st.integers(0, 10)) / 10.0
        off = draw(st.integers(-6, 6)) / 10.0
        dx, dy = b[0] - a[0], b[1] - a[1]
        return (round(a[0] + t * dx - off * dy, 2), round(a[1] + t * dy + off * dx, 2))

    for si in range(nsub):
        p = P()
        if si == 0 or draw(st.booleans()):
            out.append(f"M{fmt(p[0])},{fmt(p[1])}")
        else:
            out.append(f"m{fmt(round(p[0] - cur[0], 2))},{fmt(round(p[1] - cur[1], 2))}")
            p = (round(cur[0] + round(p[0] - cur[0], 2), 2), round(cur[1] + round(p[1] - cur[1], 2), 2))
        cur = [p[0], p[1]]
        start = list(cur)
        n = draw(st.integers(2, 5))
        for _ in range(n):
            c = draw(st.sampled_from("LlLlHhVvCcSsQqTtAa"))
            rel = c.islower()
            lc = c.lower()
            e = P()
            if lc == "h":
                e = (e[0], cur[1])
            elif lc == "v":
                e = (cur[0], e[1])

            def W(q):
                # write point q relative/absolute, rounded the same way the reader will see it
                if rel:
                    return f"{fmt(round(q[0] - cur[0], 2))},{fmt(round(q[1] - cur[1], 2))}"
                return f"{fmt(q[0])},{fmt(q[1])}"

            a0 = (cur[0], cur[1])
            if lc in "lt":
                out.append(f"{c}{W(e)}")
            elif lc == "h":
                out.append(f"{c}{fmt(round(e[0] - cur[0], 2)) if rel else fmt(e[0])}")
            elif lc == "v":
                out.append(f"{c}{fmt(round(e[1] - cur[1], 2)) if rel else fmt(e[1])}")
            elif lc == "c":
                c1, c2 = (P(), P()) if wild else (near(a0, e), near(a0, e))
                out.append(f"{c}{W(c1)} {W(c2)} {W(e)}")
            elif lc in "sq":
                c1 = P() if wild else near(a0, e)
                out.append(f"{c}{W(c1)} {W(e)}")
            elif lc == "a":
                rx, ry = _size(draw, box, 5, 40), _size(draw, box, 5, 40)
                rot = draw(st.sampled_from([0, 0, 30, -45, 90]))
                out.append(f"{c}{fmt(rx)} {fmt(ry)} {rot} {draw(st.integers(0, 1))} {draw(st.integers(0, 1))} {W(e)}")
            if rel:
                cur = [round(cur[0] + round(e[0] - cur[0], 2), 2), round(cur[1] + round(e[1] - cur[1], 2), 2)]
            else:
                cur = [e[0], e[1]]
        if draw(st.integers(0, 5)) == 0:
            # return to a hair's breadth of the subpath start (about one unit of the default rounding grid):
            # "almost closed" decisions must come out the same before and after rounding
            d = draw(st.sampled_from([0.0004, 0.0011, 0.0012, 0.0014, -0.0013, -0.0011, 0.0049, 0.0051]))
            q = (start[0] + d, start[1]) if draw(st.booleans()) else (start[0], start[1] + d)
            out.append(f"L{q[0]:.4f},{q[1]:.4f}")
            cur = [q[0], q[1]]
        if draw(st.sampled_from([True, True, False]) if closed_bias else st.booleans()):
            out.append(draw(st.sampled_from("zZ")))
            cur = list(start)
    return " ".join(out)


@st.composite
def shape(draw, cfg: Cfg, box: Box, kinds=None):
    kinds = kinds or (["rect", "rect", "circle", "ellipse", "polygon", "polyline", "path", "path", "ring", "star"] * 3 + ["tiny-coord", "bowtie"] + (["line"] * 3 if cfg.lines else []))
    k = draw(st.sampled_from(kinds))
    if k == "rect":
        a = {"x": fmt(_px(draw, box)), "y": fmt(_py(draw, box)), "width": fmt(_size(draw, box)), "height": fmt(_size(draw, box))}
        r = draw(st.sampled_from(["none", "none", "rx", "ry", "both"]))
        if r in ("rx", "both"):
            a["rx"] = fmt(_size(draw, box, 2, 60))
        if r in ("ry", "both"):
            a["ry"] = fmt(_size(draw, box, 2, 60))
        if draw(st.integers(0, 5)) == 0:
            a.pop("x")
        return node("rect", a)
    if k == "circle":
        return node("circle", {"cx": fmt(_px(draw, box)), "cy": fmt(_py(draw, box)), "r": fmt(_size(draw, box, 5, 40))})
    if k == "ellipse":
        return node("ellipse", {"cx": fmt(_px(draw, box)), "cy": fmt(_py(draw, box)), "rx": fmt(_size(draw, box, 5, 40)), "ry": fmt(_size(draw, box, 5, 40))})
    if k == "line":
        return node("line", {"x1": fmt(_px(draw, box)), "y1": fmt(_py(draw, box)), "x2": fmt(_px(draw, box)), "y2": fmt(_py(draw, box))})
    if k == "tiny-coord":
        # all integers except one coordinate below 1e-4 (printed by Python in exponent form, without a dot)
        x, y = round(_px(draw, box)), round(_py(draw, box))
        w, h = max(2, round(_size(draw, box, 10, 50))), max(2, round(_size(draw, box, 10, 50)))
        t = draw(st.sampled_from(["0.00005", "0.00002", "5e-05", "0.00007"]))
        return node("path", {"d": f"M{x},{y} L{x + w},{t} L{x + w},{y + h} L{x},{y + h} Z"})
    if k == "bowtie":
        # one self-crossing contour whose two lobes have exactly cancelling signed areas (integer coordinates): it
        # paints both lobes under either fill rule although its "area" sums to zero
        x, y = round(_px(draw, box)), round(_py(draw, box))
        w, h = max(4, round(_size(draw, box, 15, 50))), max(4, round(_size(draw, box, 15, 50)))
        return node("path", {"d": f"M{x},{y} L{x + w},{y + h} L{x + w},{y} L{x},{y + h} Z"})
    if k == "ring":
        # two nested contours; same direction -> nonzero fills the hole, evenodd does not
        x, y, w, h = _px(draw, box), _py(draw, box), _size(draw, box, 20, 60), _size(draw, box, 20, 60)
        ix, iy, iw, ih = x + w * 0.25, y + h * 0.25, w * 0.5, h * 0.5
        same = draw(st.booleans())
        outer = f"M{fmt(x)},{fmt(y)} h{fmt(w)} v{fmt(h)} h{fmt(-w)} z"
        inner = f"M{fmt(ix)},{fmt(iy)} h{fmt(iw)} v{fmt(ih)} h{fmt(-iw)} z" if same else f"M{fmt(ix)},{fmt(iy)} v{fmt(ih)} h{fmt(iw)} v{fmt(-ih)} z"
        return node("path", {"d": outer + " " + inner})
    if k == "star":
        cx_, cy_, r = _px(draw, box), _py(draw, box), _size(draw, box, 15, 45)
        pts = [(cx_ + r * math.sin(2 * math.pi * (2 * i) / 5), cy_ - r * math.cos(2 * math.pi * (2 * i) / 5)) for i in range(5)]
        return node("polygon", {"points": " ".join(f"{fmt(a)},{fmt(b)}" for a, b in pts)})
    if k in ("polygon", "polyline"):
        n = draw(st.integers(3, 6))
        pts = [(fmt(_px(draw, box)), fmt(_py(draw, box))) for _ in range(n)]
        sep = draw(st.sampled_from([" ", ", "]))
        return node(k, {"points": sep.join(f"{x},{y}" for x, y in pts)})
    return node("path", {"d": draw(path_data(box))})


# ------------------------------------------------------------------ document


class _Ctx:
    def __init__(self, cfg, box):
        self.cfg, self.box = cfg, box
        self.nleaves = 0
        self.colors = list(PALETTE)
        self.ids: List[str] = []  # ids of reusable (already complete) elements
        self.nid = 0
        self.feat = set()
        self.defs: List[dict] = []
        self.clips: List[str] = []
        self.grads: List[str] = []
        self.clip_use_ids: List[str] = []
        self.nested_depth = 0

    def new_id(self, prefix="e"):
        self.nid += 1
        return f"{prefix}{self.nid}"


def _paint_leaf(draw, cx: _Ctx, n):
    cfg = cx.cfg
    if cfg.gradients and cx.grads and n["tag"] != "line" and draw(st.integers(0, cfg.gradient_bias)) == 0:
        ref = f"url(#{draw(st.sampled_from(cx.grads))})"
        if draw(st.booleans()):
            n["a"]["fill"] = ref
        else:
            n["s"]["fill"] = ref
        cx.feat.add("gradient-fill")
        cx.nleaves += 1
        return
    if cfg.distinct_fill and not cfg.cascade:
        col = cx.colors[cx.nleaves % len(cx.colors)]
        if draw(st.booleans()):
            n["a"]["fill"] = col
        else:
            n["s"]["fill"] = col
        if cfg.translucent_fill and draw(st.integers(0, 2)) == 0:
            n["a"]["fill-opacity"] = draw(st.sampled_from(["0.5", "0.25", ".75"]))
    if n["tag"] in ("path", "polygon", "polyline") and draw(st.integers(0, 1)) == 0:
        n["a"]["fill-rule"] = draw(st.sampled_from(["evenodd", "nonzero"]))
        cx.feat.add("fill-rule")
    cx.nleaves += 1


def _maybe_transform(draw, cx, n, p=3):
    if cx.cfg.transforms and draw(st.integers(0, p)) == 0:
        n["a"]["transform"] = draw(transform_list(cx.box))
        cx.feat.add("transform")


def _maybe_display(draw, cx, n):
    if cx.cfg.display and draw(st.integers(0, 9)) == 0:
        if draw(st.booleans()):
            n["a"]["display"] = "none"
        else:
            n["s"]["display"] = "none"
        cx.feat.add("display-none")


def _maybe_clip(draw, cx, n, p=2):
    if cx.cfg.clip and cx.clips and draw(st.integers(0, p)) == 0:
        n["a"]["clip-path"] = f"url(#{draw(st.sampled_from(cx.clips))})"
        cx.feat.add("clip-on-" + n["tag"])
    elif cx.cfg.clip and cx.clips and draw(st.integers(0, 7)) == 0:
        # clip-path is not inherited: "none" on a descendant leaves the ancestors' clips in force
        if draw(st.booleans()):
            n["a"]["clip-path"] = "none"
        else:
            n["s"]["clip-path"] = "none"
        cx.feat.add("clip-none")


def _gen_leaf(draw, cx, hook=None):
    n = draw(shape(cx.cfg, cx.box))
    _paint_leaf(draw, cx, n)
    _maybe_transform(draw, cx, n)
    _maybe_display(draw, cx, n)
    _maybe_clip(draw, cx, n)
    if hook:
        hook(draw, cx, n)
    return n


def _simple_own_transform(draw, cx, n):
    """Sometimes gives a reusable element a plain translate / mirror of its own and remembers it, so that a later
    <use> can undo it exactly."""
    if not cx.cfg.transforms or draw(st.integers(0, 2)):
        return
    if not hasattr(cx, "id_transform"):
        cx.id_transform = {}
    if draw(st.integers(0, 2)):
        p_ = round(draw(st.sampled_from([-0.4, -0.25, 0.2, 0.35])) * cx.box.w, 1)
        q_ = round(draw(st.sampled_from([-0.3, 0.0, 0.25, 0.4])) * cx.box.h, 1)
        n["a"]["transform"] = f"translate({fmt(p_)} {fmt(q_)})"
        cx.id_transform[n["a"]["id"]] = ("translate", (p_, q_))
    else:
        sx_, sy_ = draw(st.sampled_from([(-1, 1), (1, -1), (-1, -1)]))
        n["a"]["transform"] = f"scale({sx_} {sy_})"
        cx.id_transform[n["a"]["id"]] = ("scale", (sx_, sy_))
    cx.feat.add("transform")


def _gen_use(draw, cx, hook=None):
    tid = draw(st.sampled_from(cx.ids))
    a = {"xlink:href": f"#{tid}"}
    tt = getattr(cx, "id_transform", {}).get(tid)
    if tt is not None and draw(st.integers(0, 2)) == 0:
        # the use undoes its target's own transform exactly (x/y or transform): the copy belongs at the untransformed place
        kind, (p, q) = tt
        if kind == "translate":
            if draw(st.booleans()):
                a["x"], a["y"] = fmt(-p), fmt(-q)
            else:
                a["transform"] = f"translate({fmt(-p)} {fmt(-q)})"
        else:
            a["transform"] = f"scale({fmt(p)} {fmt(q)})"  # mirror of a mirrored part: (-1,1)(-1,1) = identity
        cx.feat.add("use-cancels-target-transform")
        cx.feat.add("use")
        cx.nleaves += 1
        return node("use", a)
    if draw(st.booleans()):
        a["x"] = fmt(round(draw(st.integers(-30, 30)) / 100 * cx.box.w, 2))
    if draw(st.booleans()):
        a["y"] = fmt(round(draw(st.integers(-30, 30)) / 100 * cx.box.h, 2))
    n = node("use", a)
    _maybe_transform(draw, cx, n, p=1)
    _maybe_display(draw, cx, n)
    _maybe_clip(draw, cx, n, p=3)
    if hook:
        hook(draw, cx, n)
    cx.feat.add("use")
    cx.nleaves += 1
    return n


def _gen_nested_svg(draw, cx, depth, hook):
    box = cx.box
    a = {}
    x = _px(draw, box) if draw(st.booleans()) else None
    y = _py(draw, box) if draw(st.booleans()) else None
    if x is not None:
        a["x"] = fmt(x)
    if y is not None:
        a["y"] = fmt(y)
    # Omitted width/height mean 100 % of the nearest viewport.  picosvg resolves that where the element is
    # written (documented limitation of resolve_nested_svgs: percentages are not resolved against the
    # nearest viewport), so the default is only left to chance directly under the root, where definition
    # and rendering context coincide; anything that may be instanced by <use> elsewhere gets explicit sizes.
    # An svg written directly inside another nested svg (depth 2 here) has that svg as its nearest viewport wherever
    # the outer one ends up, so its omitted sizes (= the outer viewBox size, or the outer viewport size without a
    # viewBox) are well defined again.
    explicit = depth > 2 or (depth == 2 and cx.nested_depth != 1)
    if depth == 2 and not explicit:
        cx.feat.add("nested-in-nested-default-size-allowed")
    w = _size(draw, box, 20, 80) if (explicit or draw(st.integers(0, 3))) else None
    h = _size(draw, box, 20, 80) if (explicit or draw(st.integers(0, 3))) else None
    if w is not None:
        a["width"] = fmt(w)
    if h is not None:
        a["height"] = fmt(h)
    inner = box
    if draw(st.integers(0, 3)):
        vb = draw(viewbox())
        if w is not None and h is not None and draw(st.integers(0, 5)) == 0:
            # boundary: viewBox of the same size as the viewport, same or different origin
            same_origin = draw(st.booleans())
            vb = Box(x if (same_origin and x is not None) else round(box.x + 0.1 * box.w, 2), y if (same_origin and y is not None) else box.y, w, h)
            cx.feat.add("nested-viewbox-same-size")
        a["viewBox"] = f"{fmt(vb.x)} {fmt(vb.y)} {fmt(vb.w)} {fmt(vb.h)}"
        inner = vb
        par = draw(st.sampled_from([None, None, "none", "xMinYMin", "xMidYMin", "xMaxYMin", "xMinYMid", "xMidYMid", "xMaxYMid", "xMinYMax", "xMidYMax", "xMaxYMax"]))
        if par is not None:
            mos = draw(st.sampled_from(["", " meet", " slice"]))
            a["preserveAspectRatio"] = par + mos  # "none meet" / "none slice" are legal: meetOrSlice is then ignored
    else:
        # without a viewBox the inner user space is the parent's, shifted by x,y
        inner = Box(box.x - (x or 0) * 0, box.y, w if w is not None else box.w, h if h is not None else box.h)
        inner = Box(0.0, 0.0, inner.w, inner.h)
    ov = draw(st.sampled_from([None, None, "visible", "hidden"]))
    if ov is not None:
        a["overflow"] = ov
    n = node("svg", a)
    saved = cx.box
    cx.box = inner
    cx.nested_depth += 1
    k = draw(st.integers(1, 2))
    for _ in range(k):
        n["c"].append(_gen_content(draw, cx, depth + 1, hook, allow_nested=(depth <= 1 and getattr(cx.cfg, "nested_nested", True))))
    cx.nested_depth -= 1
    cx.box = saved
    cx.feat.add("nested-svg")
    return n


def _gen_group(draw, cx, depth, hook):
    g = node("g")
    micro = cx.cfg.micro and cx.cfg.transforms and not cx.cfg.stroke and depth <= 2 and not getattr(cx, "in_micro", False) and draw(st.integers(0, 24)) == 0  # no strokes: a dash pattern in normal units over a path in huge units means millions of dashes
    magnify = (not micro) and cx.cfg.stroke and cx.cfg.transforms and depth <= 2 and not getattr(cx, "in_micro", False) and draw(st.integers(0, 11)) == 0
    saved_box = cx.box
    if micro:
        # artwork in huge units scaled down hard (invertible, |det| ~ 1e-9 and below)
        k = draw(st.sampled_from([0.00002, 0.00001, 0.000004]))
        g["a"]["transform"] = f"scale({k:.6f})".replace("0.000020", "0.00002").replace("0.000010", "0.00001").replace("0.000004", "0.000004")
        cx.box = Box(round(cx.box.x / k), round(cx.box.y / k), round(cx.box.w / k), round(cx.box.h / k))
        cx.feat.add("micro-scale")
        cx.feat.add("transform")
        cx.in_micro = True  # never nested: picosvg treats |det| <= float epsilon as degenerate by definition
    elif magnify:
        # artwork drawn small and magnified (the opposite of the micro-scale group): local stroke widths and dash
        # lengths are far below one root unit although the painted stroke is several units wide
        K = draw(st.sampled_from([50, 100]))
        g["a"]["transform"] = f"scale({K})"
        cx.box = Box(cx.box.x / K, cx.box.y / K, cx.box.w / K, cx.box.h / K)
        cx.feat.add("magnified-group")
        cx.feat.add("transform")
        cx.in_micro = True  # not nested, content not reused outside
    else:
        _maybe_transform(draw, cx, g, p=1)
    _maybe_display(draw, cx, g)
    _maybe_clip(draw, cx, g, p=3)
    if cx.cfg.opacity and draw(st.integers(0, 1)) == 0:
        v = draw(st.sampled_from(["0.5", "0.25", "0.8", "1", "0", ".6", "0.5", "1.5", "-0.25", "2"] + (["0.02", "0.03", "0.02", "0.37255", "0.654321"] if cx.cfg.tiny_opacity else [])))
        if draw(st.booleans()):
            g["a"]["opacity"] = v
        else:
            g["s"]["opacity"] = v
        cx.feat.add("group-opacity")
    if hook:
        hook(draw, cx, g)
    k = draw(st.sampled_from([0, 1, 1, 2, 2, 3]))
    for _ in range(k):
        if cx.nleaves >= cx.cfg.max_leaves:
            break
        g["c"].append(_gen_content(draw, cx, depth + 1, hook))
    if draw(st.integers(0, 4)) == 0 and not (getattr(cx, "in_micro", False) and not micro):
        gid = cx.new_id("g")
        g["a"]["id"] = gid
        g["_id_after"] = gid
    cx.feat.add(f"group-depth{min(depth, 4)}")
    cx.box = saved_box
    if micro or magnify:
        cx.in_micro = False
    return g


def _gen_content(draw, cx, depth, hook, allow_nested=True):
    cfg = cx.cfg
    choices = ["leaf", "leaf", "leaf"]
    if cfg.groups and depth < cfg.max_depth:
        choices += ["group", "group"]
    if cfg.use and cx.ids:
        choices += ["use", "use"]
    if cfg.nested and allow_nested and depth < 3:
        choices += ["nested"]
    k = draw(st.sampled_from(choices))
    if k == "leaf":
        n = _gen_leaf(draw, cx, hook)
        # content in huge units (inside a micro-scale group) is not made reusable: instanced outside the group
        # it would sit at coordinates ~1e7 where the engine's float32 grid is coarser than epsilon
        if draw(st.integers(0, 3)) == 0 and not getattr(cx, "in_micro", False):
            n["a"]["id"] = cx.new_id("s")
            cx.ids.append(n["a"]["id"])
            _simple_own_transform(draw, cx, n)
        return n
    if k == "group":
        g = _gen_group(draw, cx, depth, hook)
        gid = g.pop("_id_after", None)
        if gid:
            cx.ids.append(gid)  # only usable once complete (keeps use acyclic)
        return g
    if k == "use":
        return _gen_use(draw, cx, hook)
    return _gen_nested_svg(draw, cx, depth, hook)


def _gen_clippath(draw, cx):
    cid = cx.new_id("clip")
    cp = node("clipPath", {"id": cid})
    k = draw(st.sampled_from([1, 1, 2, 3]))
    saved_cfg = cx.cfg
    for _ in range(k):
        if cx.clip_use_ids and draw(st.integers(0, 4)) == 0:
            # a <use> child instancing a plain shape from defs
            ua = {"xlink:href": f"#{draw(st.sampled_from(cx.clip_use_ids))}"}
            if draw(st.booleans()):
                ua["x"] = fmt(round(draw(st.integers(-20, 20)) / 100 * cx.box.w, 2))
            if draw(st.booleans()):
                ua["y"] = fmt(round(draw(st.integers(-20, 20)) / 100 * cx.box.h, 2))
            u = node("use", ua)
            if cx.cfg.transforms and draw(st.integers(0, 2)) == 0:
                u["a"]["transform"] = draw(transform_list(cx.box))
            cp["c"].append(u)
            cx.feat.add("clip-child-use")
            continue
        ch = draw(shape(cx.cfg, cx.box, kinds=["rect", "circle", "ellipse", "polygon", "path", "ring", "ring", "star"]))
        if ch["tag"] in ("path", "polygon") and draw(st.booleans()):
            if draw(st.booleans()):
                ch["a"]["clip-rule"] = draw(st.sampled_from(["evenodd", "nonzero"]))
            else:
                ch["s"]["clip-rule"] = draw(st.sampled_from(["evenodd", "nonzero"]))
            cx.feat.add("clip-rule-on-child")
        if cx.cfg.transforms and draw(st.integers(0, 3)) == 0:
            ch["a"]["transform"] = draw(transform_list(cx.box))
            cx.feat.add("clip-child-transform")
        if k > 1 and draw(st.integers(0, 3)) == 0:
            # paint on a clipPath child is irrelevant: the clip region is the child's raw geometry whether or not
            # the child would be visible if it were drawn (SVG 1.1 14.3.5)
            pk, pv = draw(st.sampled_from([("fill", "none"), ("fill-opacity", "0"), ("opacity", "0"), ("fill", "#123456"), ("stroke", "red")]))
            (ch["a"] if draw(st.booleans()) else ch["s"])[pk] = pv
            cx.feat.add("clip-child-paint-attr")
        cp["c"].append(ch)
    has_nested = False
    if cx.clips and draw(st.integers(0, 2)) == 0:
        cp["a"]["clip-path"] = f"url(#{draw(st.sampled_from(cx.clips))})"
        cx.feat.add("clip-the-clip")
        has_nested = True
    if cx.cfg.transforms and draw(st.integers(0, 3)) == 0:
        cp["a"]["transform"] = draw(transform_list(cx.box))
        cx.feat.add("clippath-transform" + ("+nested-clip" if has_nested else ""))
    if cx.cfg.clip_rule_on_clippath and draw(st.integers(0, 3)) == 0:
        cp["a"]["clip-rule"] = draw(st.sampled_from(["evenodd", "evenodd", "evenodd", "nonzero"]))
        cx.feat.add("clip-rule-on-clipPath")
    cx.clips.append(cid)
    return cp


def _gen_gradient(draw, cx):
    gid = cx.new_id(draw(st.sampled_from(["grad", "g_", "lg", "verlauf-gr\u00fcn", "\u0433\u0440\u0430\u0434_"])))  # ids are XML names: letters beyond ASCII are legal
    kind = draw(st.sampled_from(["linearGradient", "linearGradient", "radialGradient"]))
    a = {"id": gid}
    box = cx.box
    units = draw(st.sampled_from([None, "objectBoundingBox", "userSpaceOnUse"]))
    if units:
        a["gradientUnits"] = units
    user = units == "userSpaceOnUse"
    pct = draw(st.booleans())
    force_gt = None

    def coord(frac, horizontal):
        if frac == 2e-05:
            # a coordinate below 1e-4: Python prints such floats with an exponent (2e-05), which must be read back
            return "0.002%" if pct else "0.00002"
        if pct:
            return f"{fmt(round(frac * 100, 1))}%"
        if user:
            return fmt(round((box.x if horizontal else box.y) + frac * (box.w if horizontal else box.h), 2))
        return fmt(round(frac, 3))

    if kind == "linearGradient":
        if draw(st.integers(0, 3)):
            a["x1"], a["y1"] = coord(draw(st.sampled_from([0, 0.1, 0.25, 2e-05])), True), coord(draw(st.sampled_from([0, 0.2])), False)
            a["x2"], a["y2"] = coord(draw(st.sampled_from([1, 0.9, 0.6])), True), coord(draw(st.sampled_from([0, 1, 0.7])), False)
    else:
        if draw(st.integers(0, 3)):
            a["cx"], a["cy"] = coord(draw(st.sampled_from([0.5, 0.4])), True), coord(draw(st.sampled_from([0.5, 0.6])), False)
            if pct:
                a["r"] = draw(st.sampled_from(["50%", "40%", "65%"]))
            elif user:
                a["r"] = fmt(round(draw(st.sampled_from([0.3, 0.5])) * box.ext, 2))
            else:
                a["r"] = draw(st.sampled_from(["0.5", "0.4", "0.7"]))
            if draw(st.integers(0, 2)) == 0:
                a["fx"] = a["cx"]
                if user and not pct and cx.nid % 2 == 0:
                    # an off-centre focal point that a pure translation moves exactly onto coordinate 0: "fx is 0" and
                    # "no fx" are different gradients
                    a["fx"] = fmt(round(float(a["cx"]) - 0.2 * float(a["r"]), 2))
                    force_gt = f"translate({fmt(-float(a['fx']))} 8)"
    if draw(st.integers(0, 2)) == 0:
        a["gradientTransform"] = draw(transform_list(box)) if user else draw(st.sampled_from(["translate(0.1 0.05)", "rotate(30 0.5 0.5)", "scale(0.8)", "translate(0.2) scale(1 0.5)"]))
    if force_gt:
        a["gradientTransform"] = force_gt
        cx.feat.add("focal-point-translated-onto-0")
    if draw(st.integers(0, 3)) == 0:
        a["spreadMethod"] = draw(st.sampled_from(["pad", "reflect", "repeat"]))
    g = node(kind, a)
    own_stops = True
    if cx.grads and draw(st.integers(0, 2)) == 0:
        g["a"]["xlink:href"] = f"#{draw(st.sampled_from(cx.grads))}"  # (node() copied the dict)
        cx.feat.add("gradient-href")
        own_stops = draw(st.booleans())
    if own_stops:
        n = draw(st.sampled_from([2, 2, 3]))
        offs = sorted(draw(st.lists(st.sampled_from([0, 0.2, 0.4, 0.5, 0.7, 1]), min_size=n, max_size=n)))
        for i, o in enumerate(offs):
            sa = {"offset": draw(st.sampled_from([fmt(o), f"{fmt(o * 100)}%"]))}
            col = PALETTE[(len(cx.grads) * 3 + i) % len(PALETTE)]
            if draw(st.booleans()):
                sa["stop-color"] = col
                stop = node("stop", sa)
            else:
                stop = node("stop", sa, {"stop-color": col})
            if draw(st.integers(0, 4)) == 0:
                stop["a"]["stop-opacity"] = "0.5"
            if cx.nid % 4 == 0:
                stop["a"]["id"] = f"stop_{gid}_{i}"  # editors id every element; a copied gradient must not repeat these
                cx.feat.add("stop-ids")
            g["c"].append(stop)
    cx.grads.append(gid)
    cx.feat.add(kind)
    return g


@st.composite
def document(draw, cfg: Cfg, hook=None, root_hook=None):
    root, feat = draw(document_ast(cfg, hook, root_hook))
    text = serialize(root, root=True)
    return {"svg": text, "feat": sorted(set(feat) | set(style_spelling_feats(text)))}


@st.composite
def document_ast(draw, cfg: Cfg, hook=None, root_hook=None):
    """-> (root node, sorted feature labels); serialise with serialize(root, root=True)."""
    box = draw(viewbox())
    cx = _Ctx(cfg, box)
    root = node("svg", {"viewBox": f"{fmt(box.x)} {fmt(box.y)} {fmt(box.w)} {fmt(box.h)}"})
    defs = node("defs")
    if cfg.gradients:
        for _ in range(draw(st.integers(1, cfg.max_gradients))):
            defs["c"].append(_gen_gradient(draw, cx))
        if draw(st.booleans()):
            defs["c"].reverse()  # templates declared after their users
            cx.feat.add("gradient-template-after-user")
    if cfg.clip and cfg.use and draw(st.booleans()):
        # plain shapes (no clip, no paint needed) that clipPaths may instance through <use>
        for _ in range(draw(st.integers(1, 2))):
            n = draw(shape(cfg, box, kinds=["rect", "circle", "polygon", "ring", "star", "path"]))
            n["a"]["id"] = cx.new_id("cs")
            if cfg.transforms and draw(st.integers(0, 3)) == 0:
                n["a"]["transform"] = draw(transform_list(box))
            cx.clip_use_ids.append(n["a"]["id"])
            defs["c"].append(n)
    if cfg.clip:
        for _ in range(draw(st.sampled_from([1, 1, 2, 3]))):
            defs["c"].append(_gen_clippath(draw, cx))
        if draw(st.integers(0, 2)) == 0:
            # clip-rule is inherited: a value on an ancestor of the clipPath elements applies to children without their
            # own, unless the clipPath itself (the nearer ancestor) says otherwise - so prefer the opposite of a value
            # that some clipPath states itself
            own = [c["a"]["clip-rule"] for c in defs["c"] if c["tag"] == "clipPath" and "clip-rule" in c["a"]]
            val = {"evenodd": "nonzero", "nonzero": "evenodd"}[own[0]] if own and draw(st.integers(0, 3)) else draw(st.sampled_from(["evenodd", "nonzero"]))
            (defs["a"] if draw(st.booleans()) else defs["s"])["clip-rule"] = val
            cx.feat.add("clip-rule-on-defs")
    if cfg.use and draw(st.booleans()):
        # reusable content defined in defs (not rendered directly)
        for _ in range(draw(st.integers(1, 2))):
            if draw(st.booleans()) or not cfg.groups:
                n = _gen_leaf(draw, cx, hook)
                n["a"]["id"] = cx.new_id("d")
                cx.ids.append(n["a"]["id"])
                _simple_own_transform(draw, cx, n)
            else:
                n = _gen_group(draw, cx, 1, hook)
                n.pop("_id_after", None)
                n["a"]["id"] = cx.new_id("dg")
                cx.ids.append(n["a"]["id"])
            defs["c"].append(n)
        cx.nleaves = 0
    if root_hook:
        root_hook(draw, cx, root)
    body = []
    k = draw(st.integers(1, 4))
    for _ in range(k):
        if cx.nleaves >= cfg.max_leaves:
            break
        body.append(_gen_content(draw, cx, 1, hook))
    defs_pos = draw(st.sampled_from(["first", "first", "last"])) if not cfg.use else "first"
    if defs["c"]:
        root["c"] = ([defs] + body) if defs_pos == "first" else (body + [defs])
    else:
        root["c"] = body
    if cfg.twins and draw(st.integers(0, 3)) == 0:
        _add_twin(draw, cx, body)
    _strip(root)
    return root, sorted(cx.feat)


_SHAPE_TAGS = ("rect", "circle", "ellipse", "line", "polyline", "polygon", "path")


def _set_own(n, prop, value):
    n["s"].pop(prop, None)
    n["a"][prop] = value


def _add_twin(draw, cx, body):
    """Copies one rendered leaf: textually identical geometry (and stroke parameters), one paint property
    altered, shifted by a translate in front of its own transform.  Two shapes that differ in exactly one
    property are what per-shape memoisation with an incomplete key, or state carried from one shape to
    the next, gets wrong."""
    cfg = cx.cfg
    sites = []

    def walk(kids):
        for i, k in enumerate(kids):
            if k["tag"] in _SHAPE_TAGS and "id" not in k["a"]:
                sites.append((kids, i))
            elif k["tag"] in ("g", "svg"):
                walk(k["c"])

    walk(body)
    if not sites:
        return
    def dashed(n):
        v = n["s"].get("stroke-dasharray", n["a"].get("stroke-dasharray"))
        return v is not None and v != "none"

    dsites = [sx for sx in sites if dashed(sx[0][sx[1]])]
    if dsites and draw(st.booleans()):
        sites = dsites
    kids, i = sites[draw(st.integers(0, len(sites) - 1))]
    twin = copy.deepcopy(kids[i])
    kinds = ["recolour", "hidden-before", "hidden-before"]
    if cfg.stroke:
        kinds += ["linecap", "stroke-width"] + (["dashoffset"] * 5 if dashed(twin) else ["dashoffset"])
    kind = draw(st.sampled_from(kinds))
    before = False
    if kind == "recolour":
        _set_own(twin, "fill", draw(st.sampled_from(PALETTE)))
    elif kind == "hidden-before":
        before = True
        how = draw(st.sampled_from(["fill-none", "fill-opacity-0"] + (["display-none"] if cfg.display else []) + (["opacity-0"] if cfg.opacity else [])))
        if how == "fill-none":
            _set_own(twin, "fill", "none")
        elif how == "fill-opacity-0":
            _set_own(twin, "fill-opacity", "0")
        elif how == "display-none":
            _set_own(twin, "display", "none")
        else:
            _set_own(twin, "opacity", "0")
        if cfg.stroke or cfg.cascade:
            _set_own(twin, "stroke", "none")
        kind += ":" + how
    elif kind == "dashoffset":
        _set_own(twin, "stroke-dashoffset", fmt(round(draw(st.sampled_from([-0.2, 0.05, 0.1, 0.33, 1.3])) * cx.box.ext, 1)))
    elif kind == "linecap":
        _set_own(twin, "stroke-linecap", draw(st.sampled_from(["butt", "round", "square"])))
    else:
        _set_own(twin, "stroke-width", fmt(max(2.0, round(draw(st.sampled_from([0.04, 0.1, 0.16])) * cx.box.ext, 2))))
    if cfg.transforms and draw(st.integers(0, 3)):
        dx = round(draw(st.sampled_from([-0.3, -0.15, 0.12, 0.25, 0.4])) * cx.box.w, 1)
        dy = round(draw(st.sampled_from([-0.3, -0.15, 0.12, 0.25, 0.4])) * cx.box.h, 1)
        twin["a"]["transform"] = (f"translate({fmt(dx)} {fmt(dy)}) " + twin["a"].get("transform", "")).strip()
        cx.feat.add("transform")
    kids.insert(i if before or draw(st.booleans()) else i + 1, twin)
    cx.feat.add("twin:" + kind)


def _strip(n):
    n.pop("_id_after", None)
    for c in n["c"]:
        _strip(c)


# ------------------------------------------------------------------ cascade hook (C05)

_TINY = ["0.02", "0.03", "0.02", "0.37255", "0.123456"]  # the last two: more decimals than the default rounding keeps
_OPAC = ["0.5", "0.25", ".8", "1", "0", "0.6", "1.5", "-0.25"]  # values outside [0,1] are clamped by SVG


def _put(draw, n, prop, values, both_p=4):
    """Set a property via attribute, style, or both with different values (style must win)."""
    v = draw(st.sampled_from(values))
    how = draw(st.integers(0, both_p))
    if how == 0 and len(values) > 1:
        other = draw(st.sampled_from([x for x in values if x != v]))
        n["a"][prop] = other
        n["s"][prop] = v
        return "style-vs-attr"
    if how % 2:
        n["a"][prop] = v
    else:
        n["s"][prop] = v
    return None


def cascade_hook(draw, cx, n):
    """Random subset of paint/opacity properties on shapes, groups and use."""
    tag = n["tag"]
    props = draw(st.lists(st.sampled_from(["fill", "fill", "fill-opacity", "opacity", "fill-rule", "display"]), max_size=3, unique=True))
    for p in props:
        f = None
        if p == "fill":
            f = _put(draw, n, "fill", PALETTE[:8] + ["none", "black"])
            if n["a"].get("fill") == "black" or n["s"].get("fill") == "black":
                cx.feat.add("explicit-default-fill")
        elif p == "fill-opacity":
            f = _put(draw, n, "fill-opacity", _OPAC + (_TINY if cx.cfg.tiny_opacity else []))
        elif p == "opacity":
            f = _put(draw, n, "opacity", _OPAC + (_TINY if cx.cfg.tiny_opacity else []))
            cx.feat.add(f"{'group' if tag == 'g' else tag if tag == 'use' else 'shape'}-opacity")
        elif p == "fill-rule":
            f = _put(draw, n, "fill-rule", ["evenodd", "nonzero"])
        elif p == "display":
            if draw(st.integers(0, 2)) == 0:
                f = _put(draw, n, "display", ["none", "inline"])
                cx.feat.add("display")
        if f:
            cx.feat.add(f)
    if tag == "use" and props:
        cx.feat.add("use-borne-paint")


def root_cascade_hook(draw, cx, root, allow_opacity=False):
    props = draw(st.lists(st.sampled_from(["fill", "fill-opacity", "fill-rule", "color", "stroke-linejoin"] + (["opacity"] if allow_opacity else [])), max_size=2, unique=True))
    for p in props:
        if p == "fill":
            _put(draw, root, "fill", PALETTE[8:12])
        elif p == "fill-opacity":
            _put(draw, root, "fill-opacity", ["0.5", "0.75"])
        elif p == "fill-rule":
            _put(draw, root, "fill-rule", ["evenodd"])
        elif p == "color":
            _put(draw, root, "color", ["red", "blue"])  # inherited, unused (currentColor is never generated)
        elif p == "stroke-linejoin":
            _put(draw, root, "stroke-linejoin", ["round", "bevel"])  # inherited; only matters for stroked content
        elif p == "opacity":
            _put(draw, root, "opacity", ["0.5", "0.3"])
            cx.feat.add("root-opacity")
        cx.feat.add("root-" + p)


# ------------------------------------------------------------------ stroke hook (C04)


def _spell(draw, text):
    """The same decimal number in another legal spelling (exponent forms, explicit plus sign)."""
    k = draw(st.integers(0, 11))
    if k > 3 or text in ("0",):
        return text
    d = Decimal(text)
    if k == 0:
        return f"{d.scaleb(-1):f}e1"
    if k == 1:
        return f"{d.scaleb(1):f}E-1"
    if k == 2:
        return f"{d.scaleb(-2):f}e+2"
    return "+" + text if d > 0 else text


def _stroke_props(draw, cx, allow_dash=True):
    ext = cx.box.ext
    w = draw(st.sampled_from([0.03, 0.05, 0.08, 0.12, 0.2])) * ext
    small = ext < 20  # inside a magnified group: local units are tiny
    w = round(w, 4) if small else max(round(w, 2), 2.0)
    if draw(st.integers(0, 14)) == 0:
        w = 0  # a zero-width stroke paints nothing
        cx.feat.add("stroke-width-0")
    props = {"stroke": draw(st.sampled_from(PALETTE[8:])), "stroke-width": fmt(w)}
    if cx.cfg.gradient_stroke and cx.grads and draw(st.integers(0, 2)) == 0:
        props["stroke"] = f"url(#{draw(st.sampled_from(cx.grads))})"
        cx.feat.add("gradient-stroke")
    if draw(st.booleans()):
        props["stroke-linecap"] = draw(st.sampled_from(["butt", "round", "square"]))
    if draw(st.booleans()):
        props["stroke-linejoin"] = draw(st.sampled_from(["miter", "round", "bevel"]))
    if draw(st.integers(0, 2)) == 0:
        props["stroke-miterlimit"] = draw(st.sampled_from(["1", "2", "4", "10", "1.5"]))
    if allow_dash and draw(st.integers(0, 2)) == 0:
        n = draw(st.sampled_from([1, 2, 2, 3, 4]))
        vals = [fmt(round(draw(st.sampled_from([0.04, 0.08, 0.15, 0.3])) * ext, 3 if small else 1)) for _ in range(n)]
        if draw(st.integers(0, 4)) == 0:
            # dotted-line idiom: zero-length dashes (dots appear only with round/square caps) and wide gaps
            vals = ["0", fmt(round(draw(st.sampled_from([0.3, 0.45])) * ext, 3 if small else 1))] + (vals[:2] if draw(st.booleans()) and len(vals) >= 2 else [])
            cx.feat.add("dash-with-zero-entry")
        spelled = [_spell(draw, v) for v in vals]
        if spelled != vals:
            cx.feat.add("dash-number-spelling")
        props["stroke-dasharray"] = draw(st.sampled_from([" ", ",", ", "])).join(spelled)
        if draw(st.booleans()):
            props["stroke-dashoffset"] = _spell(draw, fmt(round(draw(st.sampled_from([-0.3, -0.05, 0.07, 0.2, 0.9, 2.5])) * ext, 3 if small else 1)))
    elif allow_dash and draw(st.integers(0, 5)) == 0:
        props["stroke-dasharray"] = "none"  # explicit reset of an inherited dash pattern
        cx.feat.add("dasharray-none")
    if draw(st.integers(0, 3)) == 0:
        props["stroke-opacity"] = draw(st.sampled_from(["0.5", "0.25", "0.8"]))
    return props


def stroke_hook(draw, cx, n):
    """Stroke properties on shapes (own) or on groups/use (inherited by their content)."""
    tag = n["tag"]
    if tag == "g" or tag == "use":
        r = draw(st.integers(0, 5))
        if r <= 1:
            for k, v in _stroke_props(draw, cx).items():
                (n["a"] if draw(st.integers(0, 2)) else n["s"])[k] = v
            cx.feat.add("stroke-inherited")
        elif r == 2:
            # an intermediate level that only resets single inherited stroke properties to their initial value
            for k, v in draw(st.sampled_from([{"stroke-dasharray": "none"}, {"stroke-dasharray": "none", "stroke-linecap": "butt"}, {"stroke-dashoffset": "0"}, {"stroke-opacity": "1"}])).items():
                (n["a"] if draw(st.booleans()) else n["s"])[k] = v
            cx.feat.add("stroke-reset-level")
        return
    if draw(st.integers(0, 3)) == 0:
        return  # unstroked (or inherits)
    props = _stroke_props(draw, cx)
    for k, v in props.items():
        (n["a"] if draw(st.integers(0, 2)) else n["s"])[k] = v
    cx.feat.add("stroke-own")
    for k in ("stroke-dasharray", "stroke-linecap", "stroke-linejoin", "stroke-opacity", "stroke-dashoffset"):
        if k in props:
            cx.feat.add(k + ("=" + props[k] if k in ("stroke-linecap", "stroke-linejoin") else ""))
    fillmode = draw(st.sampled_from(["keep", "none", "opacity"]))
    if fillmode == "none":
        n["a"].pop("fill", None)
        n["s"].pop("fill", None)
        n["a"]["fill"] = "none"
        cx.feat.add("fill-none")
    elif fillmode == "opacity":
        n["a"]["fill-opacity"] = draw(st.sampled_from(["0.5", "0.3"]))
