"""Insertion of ignorable content (C14) and of unsupported elements (C01) into a document AST
(see vlib.gen.docs: node dicts {"tag","a","s","c"})."""
from __future__ import annotations

import copy

from hypothesis import strategies as st

from vlib.gen.docs import node

FOREIGN_NS = 'xmlns:foo="http://example.com/foo" xmlns:sodipodi="http://sodipodi.sourceforge.net/DTD/sodipodi-0.dtd"'

# container tags in which a given kind of noise is legal / meaningful
_GROUPISH = ("svg", "g", "defs")
_ANY_PARENT = ("svg", "g", "defs", "clipPath", "linearGradient", "radialGradient")

NOISE_KINDS = ["comment", "pi", "title", "desc", "metadata", "foreign-element", "foreign-attr", "anon-symbol", "wrapper-g", "empty-g", "whitespace"]


def _containers(root, tags):
    out = []

    def walk(n, path):
        if n["tag"] in tags:
            out.append((n, path))
        for i, c in enumerate(n["c"]):
            if not c["tag"].startswith("#"):
                walk(c, path + (i,))

    walk(root, ())
    return out


def _elements(root):
    out = []

    def walk(n):
        if not n["tag"].startswith("#"):
            out.append(n)
        for c in n["c"]:
            walk(c)

    walk(root)
    return out


def _meta_children(draw):
    k = draw(st.integers(0, 2))
    kids = []
    for _ in range(k):
        kids.append(draw(st.sampled_from([node("#raw", {"text": "some text"}), node("foo:bar", {"foo:x": "1"}), node("rect", {"width": "5", "height": "5", "fill": "red"}), node("#comment", {"text": " inner "})])))
    return [copy.deepcopy(x) for x in kids]


def insert_noise(draw, root, n_min=1, n_max=6):
    """Mutates root (AST) by inserting ignorable content; returns (labels, prolog, needs_foreign_ns)."""
    labels = []
    prolog = ""
    foreign = False
    n = draw(st.integers(n_min, n_max))
    for _ in range(n):
        kind = draw(st.sampled_from(NOISE_KINDS + ["xml-decl", "outer"]))
        if kind == "outer":
            # comments and processing instructions are also legal outside the document element
            new = node("#comment", {"text": " outside "}) if draw(st.integers(0, 2)) == 0 else node("#pi", {"text": draw(st.sampled_from(["xml-stylesheet type='text/css' href='a.css'", "xpacket end='w'", "foo"]))})
            where = draw(st.sampled_from(["_before", "_after"]))
            root.setdefault(where, []).append(new)
            labels.append(("outer-comment" if new["tag"] == "#comment" else "outer-pi") + ("-before" if where == "_before" else "-after") + "@document")
            continue
        if kind == "xml-decl":
            prolog = draw(st.sampled_from(['<?xml version="1.0" encoding="UTF-8"?>', '<?xml version="1.0"?>\n', '<?xml version="1.0" encoding="utf-8" standalone="no"?>\n']))
            labels.append("xml-decl")
            continue
        if kind == "foreign-attr":
            els = _elements(root)
            el = els[draw(st.integers(0, len(els) - 1))]
            if draw(st.integers(0, 2)) == 0 and "xmlns:loc" not in el["a"]:
                el["a"]["xmlns:loc"] = "urn:example:local"  # prefix declared on the element itself
                el["a"]["loc:note"] = draw(st.sampled_from(["x", "red"]))
            else:
                el["a"][draw(st.sampled_from(["foo:bar", "sodipodi:nodetypes", "foo:fill", "foo:h\u00f6he"]))] = draw(st.sampled_from(["x", "cccc", "red"]))
                foreign = True
            labels.append("foreign-attr@" + el["tag"])
            continue
        if kind == "wrapper-g":
            # attribute-less group around 1..n consecutive siblings, only where g is allowed
            cands = [c for c in _containers(root, ("svg", "g")) if c[0]["c"]]
            if not cands:
                continue
            parent, _ = cands[draw(st.integers(0, len(cands) - 1))]
            kids = parent["c"]
            # do not wrap defs at root level away from "first child" semantics? wrapping is legal anywhere in svg/g
            i = draw(st.integers(0, len(kids) - 1))
            j = draw(st.integers(i, min(len(kids) - 1, i + 2)))
            if any(k["tag"].startswith("#") for k in kids[i : j + 1]):
                continue
            g = node("g", c=kids[i : j + 1])
            parent["c"] = kids[:i] + [g] + kids[j + 1 :]
            labels.append("wrapper-g@" + parent["tag"])
            continue
        legal = _GROUPISH if kind in ("anon-symbol", "empty-g", "title", "desc", "metadata", "foreign-element") else _ANY_PARENT
        if kind in ("title", "desc", "metadata"):
            legal = _ANY_PARENT  # descriptive elements are allowed inside any element
        cands = _containers(root, legal)
        if kind == "whitespace":
            # inter-element whitespace: only where there is an element to be "between"
            cands = [c for c in cands if any(not k["tag"].startswith("#") for k in c[0]["c"])] or cands[:1]
        parent, _ = cands[draw(st.integers(0, len(cands) - 1))]
        pos = draw(st.integers(0, len(parent["c"])))
        if kind == "comment":
            new = node("#comment", {"text": draw(st.sampled_from([" a comment ", "x", " <rect/> ", ""]))})
        elif kind == "pi":
            new = node("#pi", {"text": draw(st.sampled_from(["xpacket begin='r'", "foo bar", "xml-stylesheet href='a.css'", "gr\u00f6\u00dfe x"]))})
        elif kind in ("title", "desc", "metadata"):
            new = node(kind, c=_meta_children(draw))
            foreign = True
        elif kind == "foreign-element":
            kids = [node("rect", {"width": "50", "height": "50", "fill": "blue"})] if draw(st.booleans()) else []
            how = draw(st.integers(0, 2))
            if how == 0:
                new = node(draw(st.sampled_from(["foo:bar", "sodipodi:namedview", "foo:gr\u00f6\u00dfe"])), {"id": "fe", "fill": "red"}, c=kids)  # XML names may contain non-ASCII letters
                foreign = True  # prefix declared on the root
            elif how == 1:
                # namespace prefix declared on the foreign element itself
                new = node("bar:baz", {"xmlns:bar": "urn:example:bar", "bar:attr": "1", "fill": "red"}, c=[node("bar:inner", {})] if kids else [])
            else:
                # default namespace switched locally
                new = node("thing", {"xmlns": "urn:example:thing", "fill": "red"}, c=[node("inner", {"width": "5"})] if kids else [])
                if kids:
                    # ... around elements whose LOCAL names are SVG's: a translucent "g" of two "rect"s in a foreign
                    # namespace is foreign content all the same (no prefix anywhere to give it away)
                    new = node("g", {"xmlns": "urn:example:thing", "opacity": "0.5"}, c=[node("rect", {"width": "30", "height": "30", "fill": "red"}), node("rect", {"x": "10", "y": "10", "width": "30", "height": "30", "fill": "blue"})])
        elif kind == "anon-symbol":
            new = node("symbol", {"viewBox": "0 0 10 10"}, c=[node("rect", {"width": "10", "height": "10", "fill": "lime"})])
            if draw(st.integers(0, 2)) == 0:
                # the symbol has no id, but editors that id every element leave ids on its content
                u = len(labels)
                new["c"] = [node("g", {"id": f"layer_n{u}"}, c=[node("path", {"id": f"path_n{u}", "d": "M1 1h5v5z", "fill": "lime"})])]
                labels.append("anon-symbol-with-inner-ids@" + parent["tag"])
            if draw(st.booleans()):
                # an id-less symbol nested in an id-less symbol, and one more later in the document
                new["c"].append(node("symbol", c=[node("circle", {"r": "3"})]))
                root["c"].append(node("symbol", {"viewBox": "0 0 4 4"}, c=[node("rect", {"width": "4", "height": "4"})]))
                labels.append("anon-symbol-nested@svg")
        elif kind == "empty-g":
            new = node("g")
        else:
            new = node("#raw", {"text": draw(st.sampled_from(["\n", "  ", "\n\t", " \n  "]))})
        parent["c"].insert(pos, new)
        labels.append(f"{kind}@{parent['tag']}")
    return labels, prolog, foreign


UNSUPPORTED = ["filter", "mask", "image", "text", "style", "symbol", "pattern", "marker", "foreignObject", "a", "switch", "unknown"]


def _unsupported_node(draw, kind, uid):
    if kind == "filter":
        return node("filter", {"id": f"u{uid}"}, c=[node("feGaussianBlur", {"stdDeviation": "2"})])
    if kind == "mask":
        return node("mask", {"id": f"u{uid}"}, c=[node("rect", {"width": "50", "height": "50", "fill": "white"})])
    if kind == "image":
        return node("image", {"xlink:href": "a.png", "width": "10", "height": "10"})
    if kind == "text":
        return node("text", {"x": "5", "y": "15"}, c=[node("#raw", {"text": "hi "}), node("tspan", {"dx": "2"}, c=[node("#raw", {"text": "there"})])])
    if kind == "style":
        return node("style", {"type": "text/css"}, c=[node("#raw", {"text": ".a{fill:red}"})])
    if kind == "symbol":
        return node("symbol", {"id": f"u{uid}", "viewBox": "0 0 10 10"}, c=[node("circle", {"r": "5"})])
    if kind == "pattern":
        return node("pattern", {"id": f"u{uid}", "width": "4", "height": "4", "patternUnits": "userSpaceOnUse"}, c=[node("rect", {"width": "2", "height": "2"})])
    if kind == "marker":
        return node("marker", {"id": f"u{uid}", "markerWidth": "4", "markerHeight": "4"}, c=[node("path", {"d": "M0,0 L4,2 L0,4 z"})])
    if kind == "foreignObject":
        return node("foreignObject", {"width": "10", "height": "10"}, c=[node("#raw", {"text": "text"})])
    if kind == "a":
        return node("a", {"xlink:href": "http://example.com/"}, c=[node("rect", {"width": "10", "height": "10", "fill": "red"})])
    if kind == "switch":
        return node("switch", c=[node("rect", {"width": "10", "height": "10", "fill": "red"})])
    return node("blink", {"speed": "3"}, c=[node("rect", {"width": "10", "height": "10"})] if draw(st.booleans()) else [])


def insert_unsupported(draw, root, n_min=1, n_max=3):
    """Inserts unreferenced unsupported elements at leaf and container positions (svg, g, defs)."""
    labels = []
    for k in range(draw(st.integers(n_min, n_max))):
        kind = draw(st.sampled_from(UNSUPPORTED))
        cands = _containers(root, _GROUPISH)
        parent, _ = cands[draw(st.integers(0, len(cands) - 1))]
        new = _unsupported_node(draw, kind, k)
        clip_ids = [n["a"]["id"] for n in _elements(root) if n["tag"] == "clipPath" and "id" in n["a"]]
        if clip_ids and kind in ("image", "text", "a", "switch", "foreignObject", "unknown") and draw(st.integers(0, 2)) == 0:
            # an unsupported element may use the document's clip paths and transforms like any other graphics element
            new["a"]["clip-path"] = f"url(#{draw(st.sampled_from(clip_ids))})"
            if draw(st.booleans()):
                new["a"]["transform"] = "translate(3 4)"
            labels.append(f"unsupported-clipped:{kind}")
        parent["c"].insert(draw(st.integers(0, len(parent["c"]))), new)
        labels.append(f"unsupported:{kind}@{parent['tag']}")
    return labels
