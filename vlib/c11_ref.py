"""Reference for C11: own parser of the SVG 1.1 transform-list grammar, own 3x3 matrix algebra
over exact rationals, own viewport (preserveAspectRatio) computation.

Nothing in here imports picosvg.

Grammar (SVG 1.1 section 7.6, 'The transform attribute'):

    transform-list ::= wsp* transforms? wsp*
    transforms     ::= transform | transform comma-wsp+ transforms
    matrix         ::= "matrix" wsp* "(" wsp* number (comma-wsp number){5} wsp* ")"
    translate      ::= "translate" wsp* "(" wsp* number (comma-wsp number)? wsp* ")"
    scale          ::= "scale" wsp* "(" wsp* number (comma-wsp number)? wsp* ")"
    rotate         ::= "rotate" wsp* "(" wsp* number (comma-wsp number comma-wsp number)? wsp* ")"
    skewX / skewY  ::= name wsp* "(" wsp* number wsp* ")"
    comma-wsp      ::= (wsp+ comma? wsp*) | (comma wsp*)
    number         ::= sign? (integer | digits? "." digits | digits "." ) exponent?      wsp ::= [ \t\r\n]

One deliberate extension (used by every browser, by SVG 2 / css-transforms and by the design
notes): two transforms may follow each other with nothing in between ("scale(2)rotate(3)"); the
parser reports it as feature "adjacent-ops".
"""
from __future__ import annotations

import math
from fractions import Fraction
from typing import List, Sequence, Set, Tuple

WSP = " \t\r\n"
OPS = ("matrix", "translate", "scale", "rotate", "skewX", "skewY")
ARGC = {"matrix": (6,), "translate": (1, 2), "scale": (1, 2), "rotate": (1, 3), "skewX": (1,), "skewY": (1,)}


class TransformSyntaxError(ValueError):
    pass


def _skip_wsp(s, i):
    n = len(s)
    while i < n and s[i] in WSP:
        i += 1
    return i


def _comma_wsp(s, i):
    """returns (new index, consumed?, comma seen?)"""
    j = _skip_wsp(s, i)
    comma = False
    if j < len(s) and s[j] == ",":
        comma = True
        j = _skip_wsp(s, j + 1)
    return j, j > i, comma


def _digits(s, i):
    j = i
    while j < len(s) and s[j] in "0123456789":
        j += 1
    return j


def scan_number(s, i):
    """-> (exact value as Fraction, token, new index, features) or None if no number starts at i"""
    start = i
    n = len(s)
    feats = set()
    neg = False
    if i < n and s[i] in "+-":
        neg = s[i] == "-"
        feats.add("num:signed")
        i += 1
    j = _digits(s, i)
    ipart = s[i:j]
    fpart = ""
    k = j
    if k < n and s[k] == ".":
        m = _digits(s, k + 1)
        fpart = s[k + 1 : m]
        if not ipart and not fpart:
            return None
        feats.add("num:decimal")
        if not ipart:
            feats.add("num:leading-dot")
        if not fpart:
            feats.add("num:trailing-dot")
        k = m
    elif not ipart:
        return None
    exp = 0
    if k < n and s[k] in "eE":
        m = k + 1
        if m < n and s[m] in "+-":
            m += 1
        m2 = _digits(s, m)
        if m2 > m:
            exp = int(s[k + 1 : m2])
            feats.add("num:exponent")
            k = m2
    if len(ipart) > 1 and ipart[0] == "0":
        feats.add("num:leading-zero")
    mant = Fraction(int((ipart + fpart) or "0"), 10 ** len(fpart))
    val = mant * (Fraction(10) ** exp)
    if neg:
        val = -val
    return val, s[start:k], k, feats


def parse_transform_list(s: str) -> Tuple[List[Tuple[str, List[Fraction]]], Set[str]]:
    """-> ([(op, [exact decimal values])...], features); raises TransformSyntaxError."""
    ops = []
    feats: Set[str] = set()
    n = len(s)
    i = _skip_wsp(s, 0)
    if i > 0:
        feats.add("wsp:leading")
    first = True
    while i < n:
        if not first:
            # comma-wsp+ : any non-empty run of wsp and commas (or nothing: extension)
            j = i
            commas = 0
            while j < n and (s[j] in WSP or s[j] == ","):
                commas += s[j] == ","
                j += 1
            if j >= n:
                # end of list: only wsp* may follow the last transform
                if commas:
                    raise TransformSyntaxError(f"trailing comma in {s!r}")
                if j > i:
                    feats.add("wsp:trailing")
                break
            if j == i:
                feats.add("adjacent-ops")
            elif commas == 0:
                feats.add("opsep:wsp")
            elif commas == 1:
                feats.add("opsep:comma")
            else:
                feats.add("opsep:multi-comma")
            i = j
        first = False
        for name in OPS:
            if s.startswith(name, i):
                break
        else:
            raise TransformSyntaxError(f"expected a transform name at {i} in {s!r}")
        i += len(name)
        j = _skip_wsp(s, i)
        if j > i:
            feats.add("wsp:before-paren")
        i = j
        if i >= n or s[i] != "(":
            raise TransformSyntaxError(f"expected '(' at {i} in {s!r}")
        j = _skip_wsp(s, i + 1)
        if j > i + 1:
            feats.add("wsp:inside-paren")
        i = j
        vals = []
        while True:
            r = scan_number(s, i)
            if r is None:
                raise TransformSyntaxError(f"expected a number at {i} in {s!r}")
            v, tok, i, nf = r
            feats |= nf
            vals.append(v)
            j, used, comma = _comma_wsp(s, i)
            if j < n and s[j] == ")":
                if comma:
                    raise TransformSyntaxError(f"comma before ')' at {j} in {s!r}")
                if used:
                    feats.add("wsp:inside-paren")
                i = j + 1
                break
            if not used:
                raise TransformSyntaxError(f"numbers need comma-wsp between them at {i} in {s!r}")
            feats.add("argsep:comma" if comma else "argsep:wsp")
            if any(ch in "\t\r\n" for ch in s[i:j]):
                feats.add("argsep:tab-newline")
            i = j
        if len(vals) not in ARGC[name]:
            raise TransformSyntaxError(f"{name} takes {ARGC[name]} numbers, got {len(vals)} in {s!r}")
        if len(vals) < max(ARGC[name]):
            feats.add("optional-omitted")
        ops.append((name, vals))
    return ops, feats


# ------------------------------------------------------------------ exact 3x3 algebra
# a 6-tuple (a, b, c, d, e, f) denotes  [[a, c, e], [b, d, f], [0, 0, 1]]

IDENT = (1, 0, 0, 1, 0, 0)


def to33(m):
    a, b, c, d, e, f = m
    return [[a, c, e], [b, d, f], [0, 0, 1]]


def from33(M):
    assert M[2][0] == 0 and M[2][1] == 0 and M[2][2] == 1
    return (M[0][0], M[1][0], M[0][1], M[1][1], M[0][2], M[1][2])


def mul(A, B):
    """matrix product A x B of two 6-tuples via the generic 3x3 product"""
    X, Y = to33(A), to33(B)
    Z = [[sum(X[i][k] * Y[k][j] for k in range(3)) for j in range(3)] for i in range(3)]
    return from33(Z)


def product(ms: Sequence[Sequence]):
    out = IDENT
    for m in ms:
        out = mul(out, m)
    return out


def apply(m, p):
    """column vector convention: p' = M (x, y, 1)^T"""
    M = to33(m)
    v = (p[0], p[1], 1)
    r = [sum(M[i][k] * v[k] for k in range(3)) for i in range(3)]
    return (r[0], r[1])


def apply_linear(m, v):
    M = to33(m)
    w = (v[0], v[1], 0)
    r = [sum(M[i][k] * w[k] for k in range(3)) for i in range(3)]
    return (r[0], r[1])


def det(m):
    M = to33(m)
    # cofactor expansion of the full 3x3 determinant
    return (
        M[0][0] * (M[1][1] * M[2][2] - M[1][2] * M[2][1])
        - M[0][1] * (M[1][0] * M[2][2] - M[1][2] * M[2][0])
        + M[0][2] * (M[1][0] * M[2][1] - M[1][1] * M[2][0])
    )


def inverse(m):
    """exact inverse through the adjugate of the 3x3 matrix (rationals in, rationals out)"""
    M = to33(m)
    D = det(m)
    if D == 0:
        raise ZeroDivisionError("singular")

    def minor(i, j):
        rows = [r for k, r in enumerate(M) if k != i]
        sub = [[v for l, v in enumerate(r) if l != j] for r in rows]
        return sub[0][0] * sub[1][1] - sub[0][1] * sub[1][0]

    inv = [[Fraction((-1) ** (i + j) * minor(j, i)) / D for j in range(3)] for i in range(3)]
    return from33(inv)


def absm(m):
    return tuple(abs(v) for v in m)


# ------------------------------------------------------------------ elementary SVG transforms

SKEW_POLE_FENCE_DEG = 1.0
MAX_ANGLE_DEG = 1.0e5


def pole_distance_deg(angle_deg) -> float:
    """distance of an angle to the nearest pole of tan (90 + k*180 degrees)"""
    r = math.fmod(float(angle_deg) - 90.0, 180.0)
    return min(abs(r), 180.0 - abs(r))


def elementary(op: str, vals: Sequence) -> List[Tuple[tuple, tuple]]:
    """SVG 1.1 7.4/7.6 meaning of one transform: list of (matrix, entrywise magnitude bound) whose product,
    in order, is the transform.  Values are rationals; trigonometric values are the doubles returned by
    math.sin/cos/tan for the angle converted by own degree->radian conversion, taken exactly."""
    F = Fraction
    if op == "matrix":
        m = tuple(F(v) for v in vals)
        return [(m, absm(m))]
    if op == "translate":
        tx = F(vals[0])
        ty = F(vals[1]) if len(vals) > 1 else F(0)
        m = (F(1), F(0), F(0), F(1), tx, ty)
        return [(m, absm(m))]
    if op == "scale":
        sx = F(vals[0])
        sy = F(vals[1]) if len(vals) > 1 else sx
        m = (sx, F(0), F(0), sy, F(0), F(0))
        return [(m, absm(m))]
    if op == "rotate":
        rad = float(vals[0]) * math.pi / 180.0
        c, s = F(math.cos(rad)), F(math.sin(rad))
        rot = ((c, s, -s, c, F(0), F(0)), (F(1), F(1), F(1), F(1), F(0), F(0)))
        if len(vals) == 3:
            cx, cy = F(vals[1]), F(vals[2])
            t1 = (F(1), F(0), F(0), F(1), cx, cy)
            t2 = (F(1), F(0), F(0), F(1), -cx, -cy)
            return [(t1, absm(t1)), rot, (t2, absm(t2))]
        return [rot]
    if op in ("skewX", "skewY"):
        rad = float(vals[0]) * math.pi / 180.0
        t = F(math.tan(rad))
        if op == "skewX":
            m = (F(1), F(0), t, F(1), F(0), F(0))
        else:
            m = (F(1), t, F(0), F(1), F(0), F(0))
        # magnitude bound 1+|tan|: covers the error of the degree->radian conversion (<= 4e-13 rad for
        # |angle| <= 1e5 degrees) amplified by sec^2 <= (1+|tan|)^2 with |tan| <= 57.3 outside the 1 degree fence
        bt = abs(t) + 1
        bm = (F(1), F(0), bt, F(1), F(0), F(0)) if op == "skewX" else (F(1), bt, F(0), F(1), F(0), F(0))
        return [(m, bm)]
    raise KeyError(op)


def transform_list_matrix(ops):
    """-> (exact product in listed order, entrywise magnitude bound of the sums involved)"""
    ms, bs = [], []
    for op, vals in ops:
        # a number token denotes the nearest double
        fv = [Fraction(float(v)) for v in vals]
        for m, b in elementary(op, fv):
            ms.append(m)
            bs.append(b)
    return product(ms), product(bs)


# ------------------------------------------------------------------ viewport mapping (SVG 1.1 7.8 / SVG 2 8.2)

ALIGNS = ("none", "xMinYMin", "xMidYMin", "xMaxYMin", "xMinYMid", "xMidYMid", "xMaxYMid", "xMinYMax", "xMidYMax", "xMaxYMax")


def viewport_scales(src, dst, align, meet_or_slice):
    """uniform/independent scale factors the spec prescribes"""
    rx = Fraction(dst[2]) / Fraction(src[2])
    ry = Fraction(dst[3]) / Fraction(src[3])
    if align == "none":
        return rx, ry
    s = max(rx, ry) if meet_or_slice == "slice" else min(rx, ry)
    return s, s
