"""Independent recursive-descent parser for the SVG 1.1 path data BNF
(https://www.w3.org/TR/SVG11/paths.html#PathDataBNF), maximal munch.

No import of picosvg.  parse(s) returns the exploded command list
[(letter, (args...)), ...] or raises PathSyntaxError when the string does not
conform to the grammar as a whole.
"""
from __future__ import annotations

WSP = " \t\r\n"
DIGITS = "0123456789"
NARGS = {"m": 2, "z": 0, "l": 2, "h": 1, "v": 1, "c": 6, "s": 4, "q": 4, "t": 2, "a": 7}


class PathSyntaxError(Exception):
    pass


class _P:
    def __init__(self, s):
        self.s = s
        self.i = 0
        self.features = set()

    def peek(self):
        return self.s[self.i] if self.i < len(self.s) else ""

    def wsp_star(self):
        while self.peek() and self.peek() in WSP:
            self.i += 1

    def comma_wsp_opt(self) -> bool:
        """comma-wsp: (wsp+ comma? wsp*) | (comma wsp*) ; optional.  True if something consumed."""
        j = self.i
        self.wsp_star()
        if self.peek() == ",":
            self.i += 1
            self.wsp_star()
        return self.i > j

    def digit_seq(self) -> str:
        j = self.i
        while self.peek() and self.peek() in DIGITS:
            self.i += 1
        return self.s[j : self.i]

    def number(self, signed=True) -> float:
        """number / nonnegative-number with maximal munch."""
        start = self.i
        if signed and self.peek() and self.peek() in "+-":
            self.i += 1
        ip = self.digit_seq()
        fp = None
        if self.peek() == ".":
            # fractional-constant: digit-sequence? "." digit-sequence | digit-sequence "."
            save = self.i
            self.i += 1
            fp = self.digit_seq()
            if not ip and not fp:
                self.i = save
                fp = None
        if not ip and fp is None:
            raise PathSyntaxError(f"number expected at {start}")
        # exponent (only consumed if complete: e sign? digits)
        if self.peek() and self.peek() in "eE":
            save = self.i
            self.i += 1
            if self.peek() and self.peek() in "+-":
                self.i += 1
            if self.digit_seq():
                self.features.add("exponent")
            else:
                self.i = save
        tok = self.s[start : self.i]
        body = tok.lstrip("+-")
        if len(ip) > 1 and ip[0] == "0":
            self.features.add("leading_zero")
        if body.startswith("."):
            self.features.add("leading_dot")
        if body.endswith("."):
            self.features.add("trailing_dot")
        return float(tok)

    def flag(self) -> int:
        c = self.peek()
        if c not in ("0", "1") or c == "":
            raise PathSyntaxError(f"flag expected at {self.i}")
        self.i += 1
        return int(c)


def _sep(p: _P, what="sep"):
    """optional comma-wsp between two arguments; records adjacency features."""
    if not p.comma_wsp_opt():
        p.features.add("no_separator")


def _args(p: _P, cmd: str):
    lc = cmd.lower()
    if lc == "a":
        rx = p.number(signed=False)
        _sep(p)
        ry = p.number(signed=False)
        _sep(p)
        rot = p.number()
        if not p.comma_wsp_opt():  # mandatory comma-wsp before the first flag
            raise PathSyntaxError(f"comma-wsp expected at {p.i}")
        f1 = p.flag()
        if not p.comma_wsp_opt():
            p.features.add("glued_flag")
        f2 = p.flag()
        if not p.comma_wsp_opt():
            p.features.add("glued_flag")
        x = p.number()
        _sep(p)
        y = p.number()
        return (rx, ry, rot, f1, f2, x, y)
    n = NARGS[lc]
    out = [p.number()]
    for _ in range(n - 1):
        _sep(p)
        out.append(p.number())
    return tuple(out)


def _starts_number(p: _P, signed=True) -> bool:
    """Can another argument group start here (after optional comma-wsp)?"""
    c = p.peek()
    if c == "":
        return False
    if c in DIGITS:
        return True
    if c == ".":
        return True
    if signed and c in "+-":
        return True
    return False


def parse(s: str, want_features=False):
    p = _P(s)
    out = []
    p.wsp_star()
    first = True
    while p.peek():
        c = p.peek()
        if c.lower() not in NARGS:
            raise PathSyntaxError(f"command expected at {p.i}: {c!r}")
        if first and c not in "Mm":
            raise PathSyntaxError("path data must begin with a moveto")
        if out and out[-1][0] in "zZ" and False:
            pass
        p.i += 1
        lc = c.lower()
        if lc == "z":
            out.append((c, ()))
        else:
            p.wsp_star()
            cur = c
            out.append((cur, _args(p, cur)))
            if lc == "m":
                cur = "l" if c == "m" else "L"
            # further argument groups: comma-wsp? group
            while True:
                save = p.i
                had = p.comma_wsp_opt()
                if not _starts_number(p, signed=(lc != "a")):
                    # what we consumed must be pure wsp (a comma would be dangling)
                    if "," in p.s[save : p.i]:
                        raise PathSyntaxError(f"dangling comma at {save}")
                    break
                if not had:
                    p.features.add("no_separator")
                p.features.add("implicit_repeat")
                out.append((cur, _args(p, cur)))
        first = False
        p.wsp_star()
    # a drawto command group must start with a moveto: the first command is checked
    # above; later movetos are ordinary.
    if want_features:
        return out, p.features
    return out


def conforms(s: str) -> bool:
    try:
        parse(s)
        return True
    except PathSyntaxError:
        return False
