"""Reference evaluator of SVG 1.1 paint servers (linearGradient / radialGradient), independent of
picosvg.  Used by vlib.refsvg.render._Builder.paint_of.

make_evaluator(builder, grad_el, ctm, subs) -> ev, a callable
    ev(pts_root (N,2)) -> (rgb float (N,3) in 0..1 (not premultiplied), alpha (N,))
with extras
    ev.param(pts)            raw gradient parameter t (before the spread method is applied)
    ev.unstable(pts, tol)    True where the colour is discontinuous within tol (in t): repeat seams,
                             coincident stop offsets
    ev.steepness()           upper bound of |dt/dp| in root units (1 / shortest root-space length over which
                             t advances by 1); inf for degenerate vectors
    ev.spec                  the resolved Spec (kind, units, numbers, stops, matrix, provenance)

Semantics implemented (SVG 1.1 chapter 13, plus `fr` of SVG 2):
  * the colour at root point p is G(M^-1 p), M = ctm . [bbox matrix if objectBoundingBox] . gradientTransform
  * objectBoundingBox: bbox of the painted geometry in its own user space, stroke ignored; a bbox of zero
    width or height makes the paint unusable (Unsupported is raised: callers treat the case as out of domain)
  * percentages: fraction of the bbox unit square, or of the ROOT viewBox for userSpaceOnUse (width for x,
    height for y, sqrt((w^2+h^2)/2) for r and fr)
  * xlink:href templates: attributes of the element's own kind (and the three common ones) that are not set
    locally are taken from the referenced gradient, recursively; stops are taken from the first element of
    the chain that has any
  * stops: offset number or percentage clamped to [0,1] and made non-decreasing; stop-color / stop-opacity
    from attribute or style (style wins); no stops = paint none, one stop = solid colour; colour and opacity
    are interpolated linearly and separately (non-premultiplied)
  * x1=x2 & y1=y2, or r=0: the colour of the last stop everywhere
  * radial: circles centre f+t(c-f), radius fr+t(r-fr); the largest t with non-negative radius; the focal
    circle must lie strictly inside the end circle (otherwise Unsupported: renderers disagree there)
"""
from __future__ import annotations

import math
import re
from dataclasses import dataclass, field
from typing import Dict, List, Optional, Tuple

import numpy as np

from vlib.refsvg import geom

SVG = "{http://www.w3.org/2000/svg}"
XLINK_HREF = "{http://www.w3.org/1999/xlink}href"

COMMON = ("gradientUnits", "gradientTransform", "spreadMethod")
OWN = {
    "linearGradient": ("x1", "y1", "x2", "y2") + COMMON,
    "radialGradient": ("cx", "cy", "r", "fx", "fy", "fr") + COMMON,
}

_NUMBER = re.compile(r"^\s*([-+]?(?:\d+\.?\d*|\.\d+)(?:[eE][-+]?\d+)?)\s*(%?)\s*$")


def _unsupported(msg):
    from vlib.refsvg import render

    return render.Unsupported(msg)


def kind_of(el) -> Optional[str]:
    t = el.tag
    if isinstance(t, str) and t.startswith(SVG) and t[len(SVG) :] in OWN:
        return t[len(SVG) :]
    return None


def _template(builder, el):
    href = el.get(XLINK_HREF)
    if href is None:
        if el.get("href") is not None:
            raise _unsupported("gradient with plain href")
        return None
    href = href.strip()
    if not href.startswith("#") or href[1:] not in builder.by_id:
        raise _unsupported(f"gradient href {href}")
    t = builder.by_id[href[1:]]
    if kind_of(t) is None:
        raise _unsupported("gradient href to a non-gradient")
    return t


def resolve_attrs(builder, el, seen=()) -> Tuple[Dict[str, str], Dict[str, int]]:
    """Effective attributes of `el` (strings) and for each the depth in the chain it came from."""
    if id(el) in seen:
        raise _unsupported("gradient href cycle")
    k = kind_of(el)
    own = {}
    depth = {}
    for a in OWN[k]:
        v = el.get(a)
        if v is not None:
            own[a] = v
            depth[a] = 0
    t = _template(builder, el)
    if t is not None:
        ta, td = resolve_attrs(builder, t, seen + (id(el),))
        for a in OWN[k]:
            if a not in own and a in ta:
                own[a] = ta[a]
                depth[a] = td[a] + 1
    return own, depth


def resolve_stop_elements(builder, el, seen=()):
    """(stop elements, depth of the element that owns them)"""
    if id(el) in seen:
        raise _unsupported("gradient href cycle")
    stops = [c for c in el if c.tag == SVG + "stop"]
    if stops:
        return stops, 0
    t = _template(builder, el)
    if t is None:
        return [], 0
    s, d = resolve_stop_elements(builder, t, seen + (id(el),))
    return s, d + 1


def chain_length(builder, el) -> int:
    n = 0
    seen = set()
    while True:
        t = _template(builder, el)
        if t is None or id(t) in seen:
            return n
        seen.add(id(t))
        n += 1
        el = t


def _num_pct(s: str):
    m = _NUMBER.match(s)
    if not m:
        raise _unsupported(f"gradient number {s!r}")
    return float(m.group(1)), bool(m.group(2))


def parse_stops(stop_els) -> List[Tuple[float, Tuple[float, float, float], float]]:
    from vlib.refsvg import render

    out = []
    last = 0.0
    for s in stop_els:
        decl = {}
        for k in ("stop-color", "stop-opacity"):
            if s.get(k) is not None:
                decl[k] = s.get(k).strip()
        st = s.get("style")
        if st:
            for k, v in render.parse_style_decls(st).items():
                if k in ("stop-color", "stop-opacity"):
                    decl[k] = v
        v, pct = _num_pct(s.get("offset", "0"))
        off = v / 100.0 if pct else v
        off = min(1.0, max(0.0, off))
        off = max(off, last)
        last = off
        col = decl.get("stop-color", "black")
        if col in ("currentColor", "inherit"):
            raise _unsupported("stop-color " + col)
        rgb = tuple(c / 255.0 for c in render.parse_color(col))
        op = decl.get("stop-opacity", "1")
        if op == "inherit":
            raise _unsupported("stop-opacity inherit")
        a = min(1.0, max(0.0, float(op)))
        out.append((off, rgb, a))
    return out


@dataclass
class Spec:
    kind: str
    units: str
    spread: str
    coords: Dict[str, float]  # numbers in gradient space (after percentage resolution)
    stops: list
    matrix: tuple  # gradient space -> root
    gradient_transform: tuple
    bbox: Optional[tuple]
    chain: int  # number of templates reachable through href
    attr_depth: Dict[str, int] = field(default_factory=dict)
    stops_depth: int = 0
    ctm_identity: bool = True
    percent_attrs: tuple = ()
    ctm: tuple = (1.0, 0.0, 0.0, 1.0, 0.0, 0.0)
    template_after_user: bool = False  # some link of the chain points to an element later in document order
    template_before_user: bool = False
    kinds: tuple = ()  # kinds along the chain, own first
    flat_subpath_extends_bbox: bool = False  # objectBoundingBox only: a subpath without area (all points collinear) enlarges the box

    @property
    def inherits(self) -> bool:
        return any(d > 0 for d in self.attr_depth.values()) or self.stops_depth > 0


def resolve(builder, grad_el, ctm, subs) -> Spec:
    from vlib.refsvg import render

    kind = kind_of(grad_el)
    if kind is None:
        raise _unsupported("paint server " + str(grad_el.tag))
    attrs, depth = resolve_attrs(builder, grad_el)
    stop_els, sdepth = resolve_stop_elements(builder, grad_el)
    stops = parse_stops(stop_els)
    units = attrs.get("gradientUnits", "objectBoundingBox").strip()
    if units not in ("objectBoundingBox", "userSpaceOnUse"):
        raise _unsupported("gradientUnits " + units)
    spread = attrs.get("spreadMethod", "pad").strip()
    if spread not in ("pad", "reflect", "repeat"):
        raise _unsupported("spreadMethod " + spread)
    gt = render.parse_transform(attrs.get("gradientTransform"))

    if units == "objectBoundingBox":
        sw = sh = sd = 1.0
    else:
        _, _, vw, vh = builder.viewbox
        sw, sh = vw, vh
        sd = math.sqrt((vw * vw + vh * vh) / 2.0)

    pcts = []

    def val(name, default, scale):
        s = attrs.get(name, default)
        v, pct = _num_pct(s)
        if pct:
            if name in attrs:
                pcts.append(name)
            return v / 100.0 * scale
        return v

    if kind == "linearGradient":
        coords = {"x1": val("x1", "0%", sw), "y1": val("y1", "0%", sh), "x2": val("x2", "100%", sw), "y2": val("y2", "0%", sh)}
    else:
        coords = {"cx": val("cx", "50%", sw), "cy": val("cy", "50%", sh), "r": val("r", "50%", sd), "fr": val("fr", "0%", sd)}
        coords["fx"] = val("fx", "0", sw) if "fx" in attrs else coords["cx"]
        coords["fy"] = val("fy", "0", sh) if "fy" in attrs else coords["cy"]
        if coords["r"] < 0 or coords["fr"] < 0:
            raise _unsupported("negative gradient radius")

    bbox = None
    m = ctm
    if units == "objectBoundingBox":
        bb = geom.tight_bounds(subs)
        if bb is None or not (bb[2] - bb[0] > 0 and bb[3] - bb[1] > 0):
            raise _unsupported("objectBoundingBox gradient on geometry with an empty bounding box")
        bbox = bb
        m = render.mat_mul(m, (bb[2] - bb[0], 0.0, 0.0, bb[3] - bb[1], bb[0], bb[1]))
    m = render.mat_mul(m, gt)
    if render.mat_inv(m) is None:
        raise _unsupported("degenerate gradient matrix")
    ident = all(abs(a - b) < 1e-12 for a, b in zip(ctm, render.IDENT))
    after, before, kinds = _chain_order(builder, grad_el)
    flat = False
    if bbox is not None and len(subs) > 1:
        solid = [s for s in subs if not _collinear(s)]
        if len(solid) < len(subs):
            bb2 = geom.tight_bounds(solid) if solid else None
            flat = bb2 is None or any(abs(a - b) > 1e-9 for a, b in zip(bb2, bbox))
    return Spec(kind, units, spread, coords, stops, tuple(m), tuple(gt), bbox, chain_length(builder, grad_el), depth, sdepth, ident, tuple(pcts), tuple(ctm), after, before, kinds, flat)


def _collinear(sub) -> bool:
    """True when all points of the subpath (control points included) lie on one line: it encloses no area."""
    pts = [sub["start"]]
    for seg in sub["segs"]:
        if seg[0] == "A":
            return False
        pts.extend(p for p in seg[1:])
    p0 = pts[0]
    far = max(pts, key=lambda p: (p[0] - p0[0]) ** 2 + (p[1] - p0[1]) ** 2)
    dx, dy = far[0] - p0[0], far[1] - p0[1]
    L = math.hypot(dx, dy)
    if L == 0:
        return True
    return all(abs((p[0] - p0[0]) * dy - (p[1] - p0[1]) * dx) <= 1e-9 * L * max(1.0, L) for p in pts)


def _chain_order(builder, el):
    idx = getattr(builder, "_doc_index", None)
    if idx is None:
        idx = {id(e): i for i, e in enumerate(builder.root.iter())}
        builder._doc_index = idx
    after = before = False
    kinds = [kind_of(el)]
    seen = {id(el)}
    while True:
        t = _template(builder, el)
        if t is None or id(t) in seen:
            break
        if idx[id(t)] > idx[id(el)]:
            after = True
        else:
            before = True
        kinds.append(kind_of(t))
        seen.add(id(t))
        el = t
    return after, before, tuple(kinds)


def _spread(t, spread):
    if spread == "pad":
        return np.clip(t, 0.0, 1.0)
    if spread == "repeat":
        return t - np.floor(t)
    u = np.mod(t, 2.0)
    return np.where(u > 1.0, 2.0 - u, u)


def _ramp(u, stops):
    """colour/alpha at mapped parameter u in [0,1]"""
    offs = np.array([s[0] for s in stops])
    cols = np.array([s[1] + (s[2],) for s in stops])  # (n,4)
    n = len(stops)
    idx = np.searchsorted(offs, u, side="right") - 1  # last stop with offset <= u
    lo = np.clip(idx, 0, n - 1)
    hi = np.clip(idx + 1, 0, n - 1)
    o0, o1 = offs[lo], offs[hi]
    span = np.where(o1 > o0, o1 - o0, 1.0)
    w = np.where((idx >= 0) & (idx < n - 1), (u - o0) / span, 0.0)
    w = np.clip(w, 0.0, 1.0)
    # idx < 0: before the first stop -> first colour (lo = hi... lo=0, w=0); idx >= n-1: last colour
    c = cols[lo] * (1 - w)[:, None] + cols[hi] * w[:, None]
    first = idx < 0
    if first.any():
        c[first] = cols[0]
    return c[:, :3], c[:, 3]


def make_evaluator(builder, grad_el, ctm, subs):
    from vlib.refsvg import render

    spec = resolve(builder, grad_el, ctm, subs)
    inv = render.mat_inv(spec.matrix)
    stops = spec.stops
    c = spec.coords
    degenerate = False
    if spec.kind == "linearGradient":
        dx, dy = c["x2"] - c["x1"], c["y2"] - c["y1"]
        l2 = dx * dx + dy * dy
        degenerate = l2 == 0

        def param(pts):
            q = geom.transform_points(np.asarray(pts, dtype=float).reshape(-1, 2), inv)
            if degenerate:
                return np.full(len(q), 1.0)
            return ((q[:, 0] - c["x1"]) * dx + (q[:, 1] - c["y1"]) * dy) / l2

        grad_len = math.sqrt(l2)
    else:
        cdx, cdy = c["cx"] - c["fx"], c["cy"] - c["fy"]
        r, fr = c["r"], c["fr"]
        dr = r - fr
        degenerate = r == 0
        if not degenerate and not (math.hypot(cdx, cdy) + fr < r):
            raise _unsupported("radial gradient whose focal circle is not strictly inside the end circle")
        a = cdx * cdx + cdy * cdy - dr * dr  # < 0 in the supported domain

        def param(pts):
            q = geom.transform_points(np.asarray(pts, dtype=float).reshape(-1, 2), inv)
            if degenerate:
                return np.full(len(q), 1.0)
            px, py = q[:, 0] - c["fx"], q[:, 1] - c["fy"]
            b = px * cdx + py * cdy + fr * dr
            cc = px * px + py * py - fr * fr
            disc = np.maximum(b * b - a * cc, 0.0)
            s = np.sqrt(disc)
            t1 = (b + s) / a
            t2 = (b - s) / a
            tmin = -fr / dr  # radius non-negative for t >= tmin
            hi = np.maximum(t1, t2)
            lo = np.minimum(t1, t2)
            return np.where(hi >= tmin - 1e-12, hi, lo)

        grad_len = (dr - math.hypot(cdx, cdy)) if not degenerate else 0.0

    # seams in mapped parameter space: coincident offsets with different colours
    jumps = []
    for i in range(len(stops) - 1):
        if stops[i][0] == stops[i + 1][0] and (stops[i][1] != stops[i + 1][1] or stops[i][2] != stops[i + 1][2]):
            jumps.append(stops[i][0])

    def ev(pts):
        pts = np.asarray(pts, dtype=float).reshape(-1, 2)
        n = len(pts)
        if not stops:
            return np.zeros((n, 3)), np.zeros(n)
        if len(stops) == 1 or degenerate:
            s = stops[-1]
            return np.tile(np.array(s[1]), (n, 1)), np.full(n, s[2])
        u = _spread(param(pts), spec.spread)
        return _ramp(u, stops)

    def unstable(pts, tol=1e-3):
        pts = np.asarray(pts, dtype=float).reshape(-1, 2)
        out = np.zeros(len(pts), dtype=bool)
        if len(stops) < 2 or degenerate:
            return out
        t = param(pts)
        if spec.spread == "repeat":
            out |= np.abs(t - np.round(t)) < tol
        u = _spread(t, spec.spread)
        for j in jumps:
            out |= np.abs(u - j) < tol
            if spec.spread == "pad" and j in (0.0, 1.0):
                out |= np.abs(t - j) < tol
        return out

    def steepness():
        if degenerate or grad_len <= 0:
            return float("inf")
        m = spec.matrix
        a_, b_, c_, d_ = m[:4]
        s1 = a_ * a_ + b_ * b_ + c_ * c_ + d_ * d_
        s2 = math.sqrt(max(0.0, (a_ * a_ + b_ * b_ - c_ * c_ - d_ * d_) ** 2 + 4 * (a_ * c_ + b_ * d_) ** 2))
        smin = math.sqrt(max(0.0, (s1 - s2) / 2))
        if smin <= 0:
            return float("inf")
        return 1.0 / (smin * grad_len)

    ev.param = param
    ev.unstable = unstable
    ev.steepness = steepness
    ev.spec = spec
    return ev
