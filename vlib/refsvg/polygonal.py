"""Polygonal twin of a document: every curved shape (rounded rect, circle, ellipse, path with
curves/arcs) is replaced by a <path> made of M/L/Z only, flattened finely in the element's own
user space; everything else (structure, attributes, styles, transforms, clips, ids) is kept.

Used to attribute a render mismatch: skia-pathops occasionally returns a wrong region for curved
input (engine finding ENGINE).  If the polygonal twin of the same document converts correctly the
mismatch is attributed to the engine's curve handling and not to picosvg's own logic."""
from __future__ import annotations

import xml.etree.ElementTree as ET

from vlib.refsvg import geom, render

SVG = render.SVG
_SHAPES = ("path", "rect", "circle", "ellipse")
_GEOM_ATTRS = {"d", "x", "y", "width", "height", "rx", "ry", "cx", "cy", "r"}


def _fmt(v):
    return repr(round(float(v), 5))


def polygonalise(text: str):
    """-> (new_text, n_replaced)"""
    ET.register_namespace("", "http://www.w3.org/2000/svg")
    ET.register_namespace("xlink", "http://www.w3.org/1999/xlink")
    b = render._Builder(text)
    n = 0
    for el in b.root.iter():
        if not isinstance(el.tag, str) or not el.tag.startswith(SVG):
            continue
        t = el.tag[len(SVG) :]
        if t not in _SHAPES:
            continue
        try:
            sp = b.shape_subpaths(el)
        except render.Unsupported:
            continue
        if sp is None:
            continue
        subs, _ = sp
        if all(seg[0] == "L" for s in subs for seg in s["segs"]):
            if t == "path":
                continue
        bb = geom.tight_bounds(subs, include_moves=True)
        ext = max(bb[2] - bb[0], bb[3] - bb[1], 1e-6)
        polys = geom.flatten(subs, ext * 2e-4)
        parts = []
        for (pts, closed, _), s in zip(polys, subs):
            if len(pts) == 0:
                continue
            parts.append("M" + " L".join(f"{_fmt(x)},{_fmt(y)}" for x, y in pts))
            if closed:
                parts.append("Z")
        for k in list(el.attrib):
            if k in _GEOM_ATTRS:
                del el.attrib[k]
        el.tag = SVG + "path"
        el.set("d", " ".join(parts))
        n += 1
    return ET.tostring(b.root, encoding="unicode"), n
