"""Hand-computed cases pinning vlib.refsvg.gradient (run by ./check --setup)."""
import math

import numpy as np

from vlib.refsvg import render

NS = 'xmlns="http://www.w3.org/2000/svg" xmlns:xlink="http://www.w3.org/1999/xlink"'
STOPS = '<stop offset="0" stop-color="#f00"/><stop offset="1" stop-color="#00f"/>'


def _r(body, pts, vb="0 0 100 100"):
    sc = render.build(f'<svg {NS} viewBox="{vb}">{body}</svg>')
    return sc, sc.render(np.array(pts, dtype=float))


def _c(res, i):
    return [round(float(x), 4) for x in res.rgba[i]]


def test_linear_bbox_default_vector():
    # default x1=0% x2=100% of the bounding box (20..60): red at the left edge, blue at the right
    _, r = _r(f'<defs><linearGradient id="g">{STOPS}</linearGradient></defs><rect x="20" y="10" width="40" height="30" fill="url(#g)"/>', [(30, 20), (40, 39), (50, 11)])
    assert _c(r, 0) == [0.75, 0.0, 0.25, 1.0]
    assert _c(r, 1) == [0.5, 0.0, 0.5, 1.0]
    assert _c(r, 2) == [0.25, 0.0, 0.75, 1.0]


def test_user_space_percent_and_transform_order():
    # userSpaceOnUse percentages refer to the root viewBox (200 x 100): x1 = 10% = 20, x2 = 60% = 120
    body = f'<defs><linearGradient id="g" gradientUnits="userSpaceOnUse" x1="10%" x2="60%">{STOPS}</linearGradient></defs><rect width="200" height="100" fill="url(#g)"/>'
    _, r = _r(body, [(45, 50), (10, 5), (150, 5)], vb="0 0 200 100")
    assert _c(r, 0) == [0.75, 0.0, 0.25, 1.0] and _c(r, 1) == [1.0, 0.0, 0.0, 1.0] and _c(r, 2) == [0.0, 0.0, 1.0, 1.0]
    # M = ctm . gradientTransform: shape translated by 50 and gradient scaled by 2: vector 0..10 covers root x 50..70
    body = f'<defs><linearGradient id="g" gradientUnits="userSpaceOnUse" x1="0" x2="10" gradientTransform="scale(2)">{STOPS}</linearGradient></defs><rect width="40" height="40" fill="url(#g)" transform="translate(50,0)"/>'
    _, r = _r(body, [(55, 5), (60, 5), (80, 5)])
    assert _c(r, 0) == [0.75, 0.0, 0.25, 1.0] and _c(r, 1) == [0.5, 0.0, 0.5, 1.0] and _c(r, 2) == [0.0, 0.0, 1.0, 1.0]
    # bbox units under a shape transform: the box is the LOCAL box (0..40) mapped by the ctm (scale 2 -> 0..80)
    body = f'<defs><linearGradient id="g">{STOPS}</linearGradient></defs><rect width="40" height="40" fill="url(#g)" transform="scale(2)"/>'
    _, r = _r(body, [(20, 5), (60, 70)])
    assert _c(r, 0) == [0.75, 0.0, 0.25, 1.0] and _c(r, 1) == [0.25, 0.0, 0.75, 1.0]


def test_spread_methods_and_seams():
    for sm, exp in (("pad", [1.0, 0.0, 0.0, 1.0]), ("repeat", [0.5, 0.0, 0.5, 1.0]), ("reflect", [0.5, 0.0, 0.5, 1.0])):
        body = f'<defs><linearGradient id="g" gradientUnits="userSpaceOnUse" x1="40" x2="60" spreadMethod="{sm}">{STOPS}</linearGradient></defs><rect width="100" height="100" fill="url(#g)"/>'
        sc, r = _r(body, [(30, 50), (65, 50), (75, 50)])
        assert _c(r, 0) == exp, (sm, _c(r, 0))  # t = -0.5
        # t = 1.25: pad blue, repeat 0.25, reflect 0.75
        exp2 = {"pad": [0.0, 0.0, 1.0, 1.0], "repeat": [0.75, 0.0, 0.25, 1.0], "reflect": [0.25, 0.0, 0.75, 1.0]}[sm]
        assert _c(r, 1) == exp2, (sm, _c(r, 1))
        ev = sc.leaves[0].fill_paint.gradient
        u = ev.unstable(np.array([(60.001, 5.0), (61.0, 5.0), (40.0, 5.0)]), 1e-3)
        assert [bool(x) for x in u] == ([True, False, True] if sm == "repeat" else [False, False, False])
        assert abs(ev.steepness() - 1 / 20) < 1e-12


def test_stops_clamp_monotone_style_opacity():
    stops = '<stop offset="50%" stop-color="lime" style="stop-color:#f00;stop-opacity:0.5"/><stop offset="0.2" stop-color="#00f"/><stop offset="1.5" stop-color="#00f" stop-opacity="0"/>'
    body = f'<defs><linearGradient id="g" gradientUnits="userSpaceOnUse" x1="0" x2="100">{stops}</linearGradient></defs><rect width="100" height="100" fill="url(#g)"/>'
    sc, r = _r(body, [(10, 50), (49, 50), (51, 50), (75, 50)])
    # offsets become .5 .5 1: left of .5 translucent red; right of it blue fading to transparent at 1
    assert _c(r, 0) == [0.5, 0.0, 0.0, 0.5] and _c(r, 1) == [0.5, 0.0, 0.0, 0.5]
    assert _c(r, 2) == [0.0, 0.0, 0.98, 0.98]  # premultiplied: pure blue x alpha
    assert _c(r, 3) == [0.0, 0.0, 0.5, 0.5]
    ev = sc.leaves[0].fill_paint.gradient
    assert [bool(x) for x in ev.unstable(np.array([(50.05, 1.0), (52.0, 1.0)]), 1e-3)] == [True, False]


def test_radial_focal_closed_form():
    # centre (50,50) r 40, focus (70,50): along +x from the focus the ramp ends at x=90 (20 long), along -x at x=10 (60 long)
    body = f'<defs><radialGradient id="g" gradientUnits="userSpaceOnUse" cx="50" cy="50" r="40" fx="70" fy="50">{STOPS}</radialGradient></defs><rect width="100" height="100" fill="url(#g)"/>'
    sc, r = _r(body, [(80, 50), (40, 50), (95, 50), (70, 50)])
    assert _c(r, 0) == [0.5, 0.0, 0.5, 1.0] and _c(r, 1) == [0.5, 0.0, 0.5, 1.0] and _c(r, 2) == [0.0, 0.0, 1.0, 1.0] and _c(r, 3) == [1.0, 0.0, 0.0, 1.0]
    # perpendicular to the axis: |(20 t - 20... solve |q - c(t)| = 40 t with q=(70,70): c(t)=(70-20t,50): (20t)^2+400 = 1600 t^2 -> t = 1/sqrt(3)
    ev = sc.leaves[0].fill_paint.gradient
    assert abs(ev.param(np.array([(70.0, 70.0)]))[0] - 1 / math.sqrt(3)) < 1e-12
    assert abs(ev.steepness() - 1 / 20) < 1e-12
    # fr: focal circle radius 10 at the centre: t = (d - 10) / 30; percentages of r/fr use the normalised diagonal
    body = f'<defs><radialGradient id="g" gradientUnits="userSpaceOnUse" cx="50" cy="50" r="40" fr="10">{STOPS}</radialGradient></defs><rect width="100" height="100" fill="url(#g)"/>'
    sc, r = _r(body, [(75, 50), (55, 50)])
    assert _c(r, 0) == [0.5, 0.0, 0.5, 1.0] and _c(r, 1) == [1.0, 0.0, 0.0, 1.0]
    body = f'<defs><radialGradient id="g" gradientUnits="userSpaceOnUse" cx="100" cy="50" r="50%" fr="10%">{STOPS}</radialGradient></defs><rect width="200" height="100" fill="url(#g)"/>'
    sc, _ = _r(body, [(75, 50)], vb="0 0 200 100")
    d = math.sqrt((200 * 200 + 100 * 100) / 2)
    co = sc.leaves[0].fill_paint.gradient.spec.coords
    assert abs(co["r"] - d / 2) < 1e-12 and abs(co["fr"] - d / 10) < 1e-12 and co["fx"] == 100 and co["fy"] == 50


def test_templates():
    # attributes not set locally come from the template (recursively), own attributes win, stops only when none are own
    defs = (
        '<linearGradient id="a" xlink:href="#b" x1="20" gradientTransform="translate(5,0)"/>'
        f'<linearGradient id="b" xlink:href="#c" x1="90" x2="60" spreadMethod="repeat"><stop offset="0" stop-color="lime"/><stop offset="1" stop-color="lime"/></linearGradient>'
        f'<radialGradient id="c" gradientUnits="userSpaceOnUse" r="7" gradientTransform="scale(3)" spreadMethod="reflect">{STOPS}</radialGradient>'
    )
    sc, r = _r(f"<defs>{defs}</defs><rect width='100' height='100' fill='url(#a)'/>", [(35, 5), (75, 5)])
    sp = sc.leaves[0].fill_paint.gradient.spec
    assert sp.units == "userSpaceOnUse" and sp.spread == "repeat" and sp.coords == {"x1": 20.0, "y1": 0.0, "x2": 60.0, "y2": 0.0}
    assert sp.gradient_transform == (1, 0, 0, 1, 5.0, 0.0) and sp.chain == 2 and sp.stops_depth == 1 and sp.template_after_user
    assert _c(r, 0) == [0.0, 1.0, 0.0, 1.0]
    # a linear gradient takes no geometry from a radial template, only the common attributes and stops
    defs = f'<linearGradient id="a" xlink:href="#c"/><radialGradient id="c" gradientUnits="userSpaceOnUse" cx="3" r="7" spreadMethod="reflect">{STOPS}</radialGradient>'
    sc, r = _r(f"<defs>{defs}</defs><rect width='100' height='100' fill='url(#a)'/>", [(150, 5)], vb="0 0 200 100")
    sp = sc.leaves[0].fill_paint.gradient.spec
    assert sp.coords == {"x1": 0.0, "y1": 0.0, "x2": 200.0, "y2": 0.0} and sp.spread == "reflect" and len(sp.stops) == 2


def test_degenerate_and_few_stops():
    body = f'<defs><linearGradient id="g" gradientUnits="userSpaceOnUse" x1="5" x2="5" y1="3" y2="3">{STOPS}</linearGradient><linearGradient id="h"><stop offset="0.3" stop-color="lime" stop-opacity="0.5"/></linearGradient><linearGradient id="n"/></defs>'
    body += '<rect width="10" height="10" fill="url(#g)"/><rect x="20" width="10" height="10" fill="url(#h)"/><rect x="40" width="10" height="10" fill="url(#n)"/>'
    _, r = _r(body, [(5, 5), (25, 5), (45, 5)])
    assert _c(r, 0) == [0.0, 0.0, 1.0, 1.0] and _c(r, 1) == [0.0, 0.5, 0.0, 0.5] and not r.covered[2]
    for bad in (
        '<radialGradient id="g" gradientUnits="userSpaceOnUse" cx="50" cy="50" r="10" fx="70"><stop offset="0"/><stop offset="1" stop-color="red"/></radialGradient>',
        '<linearGradient id="g" gradientTransform="scale(0)"><stop offset="0"/><stop offset="1" stop-color="red"/></linearGradient>',
    ):
        try:
            _r(f"<defs>{bad}</defs><rect width='10' height='10' fill='url(#g)'/>", [(5, 5)])
        except render.Unsupported:
            continue
        raise AssertionError("expected Unsupported")
    try:
        _r(f"<defs><linearGradient id='g'>{STOPS}</linearGradient></defs><path d='M0,0 H10' fill='url(#g)'/>", [(5, 5)])
    except render.Unsupported:
        pass
    else:
        raise AssertionError("zero-height bbox must be unsupported")
