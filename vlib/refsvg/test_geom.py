import math
import numpy as np
from vlib.refsvg import geom
from vlib.refsvg.pathgrammar import parse


def _i(d):
    return geom.interpret(parse(d))


def test_shorthand_families():
    s = _i("M0,0 Q10,0 10,10 S20,20 30,10")[0]["segs"]
    assert s[1] == ("C", (10, 10), (10, 10), (20, 20), (30, 10))  # no reflection after Q
    s = _i("M0,0 C1,1 2,5 3,3 S6,6 7,7")[0]["segs"]
    assert s[1][2] == (4, 1)  # reflection of (2,5) about (3,3)
    s = _i("M0,0 Q2,4 4,0 T8,0 t4,0")[0]["segs"]
    assert s[1][2] == (6, -4) and s[2][2] == (10, 4)
    s = _i("M0,0 C1,1 2,5 3,3 T7,7")[0]["segs"]
    assert s[1][2] == (3, 3)


def test_z_then_draw():
    subs = _i("M1,1 l2,0 z l3,3 l1,0 z")
    assert len(subs) == 2 and subs[1]["start"] == (1, 1) and subs[1]["segs"][0] == ("L", (1, 1), (4, 4)) and subs[1]["closed"]
    subs = _i("m1,1 m2,2 l1,0")
    assert subs[0]["start"] == (1, 1) and subs[1]["start"] == (3, 3)
    subs = _i("M0,0 h5 v5 H1 V2")
    assert [g[2] for g in subs[0]["segs"]] == [(5, 0), (5, 5), (1, 5), (1, 2)]


def test_winding_and_area():
    polys = geom.flatten(_i("M0,0 H30 V30 H0 Z M10,10 H20 V20 H10 Z"), 0.01)
    A, B = geom.edges_of(polys)
    pts = np.array([[5.0, 5.0], [15.0, 15.0], [40.0, 5.0]])
    assert list(geom.winding(pts, A, B)) == [1, 2, 0]
    assert list(geom.inside(pts, A, B, "evenodd")) == [True, False, False]
    assert list(geom.inside(pts, A, B, "nonzero")) == [True, True, False]
    polys = geom.flatten(_i("M10,0 A10,10 0 1 1 -10,0 A10,10 0 1 1 10,0 Z"), 1e-4)
    A, B = geom.edges_of(polys)
    assert abs(abs(geom.polygon_area(A, B)) - math.pi * 100) < 0.05
    d = geom.dist_to_edges(np.array([[0.0, 0.0], [20.0, 0.0]]), A, B)
    assert abs(d[0] - 10) < 1e-3 and abs(d[1] - 10) < 1e-3


def test_tight_bounds():
    b = geom.tight_bounds(_i("M0,0 C0,10 10,10 10,0"))
    assert b[0] == 0 and b[2] == 10 and abs(b[3] - 7.5) < 1e-12 and b[1] == 0
    b = geom.tight_bounds(_i("M0,0 Q5,10 10,0"))
    assert abs(b[3] - 5) < 1e-12
    b = geom.tight_bounds(_i("M10,0 A10,5 0 0 1 -10,0"))
    assert abs(b[3] - 5) < 1e-9 and abs(b[1]) < 1e-9 and abs(b[0] + 10) < 1e-9
    assert geom.tight_bounds(_i("M1,1 L2,2 M50,50")) == (1, 1, 2, 2)
    assert geom.tight_bounds(_i("M1,1 L2,2 M50,50"), include_moves=True) == (1, 1, 50, 50)
