"""Jitter twins of a document: every absolute geometry coordinate is moved by a small deterministic
pseudo-random amount (<= amp, default 0.2 % of the viewBox extent).  Used to attribute a render mismatch: skia-pathops' simplify occasionally loses part of a heavily self-overlapping (but purely
polygonal) stroke outline - dashes with projecting caps around an acute corner - and such failures vanish
under tiny perturbations, whereas errors of the logic around the engine (wrong width, cap/join mapping, dash
offset, stacking, opacity) do not."""
from __future__ import annotations

import re
import xml.etree.ElementTree as ET
import zlib

from vlib.refsvg import render
from vlib.refsvg.pathgrammar import parse as parse_path, PathSyntaxError

SVG = render.SVG
_NUM = re.compile(r"[-+]?(?:\d+\.?\d*|\.\d+)(?:[eE][-+]?\d+)?")
_ATTRS = ("x", "y", "x1", "y1", "x2", "y2", "cx", "cy")


def _delta(tag, i, k, amp):
    h = zlib.crc32(f"{tag}/{i}/{k}".encode())
    return amp * (((h % 2001) / 1000.0) - 1.0)


def _fmt(v):
    return repr(round(v, 6))


def jitter(text: str, k: int, amp_rel: float = 2e-3) -> str:
    ET.register_namespace("", "http://www.w3.org/2000/svg")
    ET.register_namespace("xlink", "http://www.w3.org/1999/xlink")
    root = ET.fromstring(text.encode())
    vb = root.get("viewBox")
    ext = 100.0
    if vb:
        v = [float(x) for x in re.split(r"[,\s]+", vb.strip())]
        ext = max(v[2], v[3])
    amp = amp_rel * ext
    n = 0
    for el in root.iter():
        if not isinstance(el.tag, str) or not el.tag.startswith(SVG):
            continue
        t = el.tag[len(SVG) :]
        if t in ("rect", "circle", "ellipse", "line"):
            for a in _ATTRS:
                if el.get(a) is not None:
                    n += 1
                    el.set(a, _fmt(float(el.get(a)) + _delta(a, n, k, amp)))
        elif t in ("polygon", "polyline") and el.get("points"):
            nums = [float(x) for x in _NUM.findall(el.get("points"))]
            out = []
            for x in nums:
                n += 1
                out.append(_fmt(x + _delta("p", n, k, amp)))
            el.set("points", " ".join(f"{out[i]},{out[i + 1]}" for i in range(0, len(out) - 1, 2)))
        elif t == "path" and el.get("d"):
            try:
                cmds = parse_path(el.get("d"))
            except PathSyntaxError:
                continue
            parts = []
            for c, a in cmds:
                a = list(a)
                if c.isupper() and c != "Z":
                    idx = {"H": [0], "V": [0], "A": [5, 6]}.get(c, list(range(len(a))))
                    for i in idx:
                        n += 1
                        a[i] = a[i] + _delta(c, n, k, amp)
                parts.append(c + " ".join(_fmt(float(x)) if not (c in "Aa" and j in (3, 4)) else str(int(x)) for j, x in enumerate(a)))
            el.set("d", " ".join(parts))
    return ET.tostring(root, encoding="unicode")
