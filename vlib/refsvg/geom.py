"""Reference path semantics: interpreter (exploded commands -> absolute subpaths),
flattening, winding numbers, distances, tight bounds.  No import of picosvg.

A subpath is a dict {"start": (x,y), "segs": [seg...], "closed": bool} where seg is one of
  ("L", p0, p1) ("Q", p0, c, p1) ("C", p0, c1, c2, p1) ("A", p0, (rx, ry, rot, large, sweep), p1)
"""
from __future__ import annotations

import math
from typing import List, Sequence, Tuple

import numpy as np

from vlib.refsvg import arcref

NARGS = {"m": 2, "z": 0, "l": 2, "h": 1, "v": 1, "c": 6, "s": 4, "q": 4, "t": 2, "a": 7}


class PathError(Exception):
    pass


def interpret(cmds: Sequence[Tuple[str, Sequence[float]]], notes=None):
    """SVG 1.1 path semantics (8.3): current point, subpath start, shorthand reflection only
    after a command of the same family, closepath returns to the subpath start and a drawing
    command right after it starts a new subpath at that same point."""
    subs: List[dict] = []
    cur = (0.0, 0.0)
    start = (0.0, 0.0)
    sub = None
    last_cubic_ctrl = None  # second control point of previous C/S (absolute)
    last_quad_ctrl = None  # control point of previous Q/T
    first = True
    omitted_arc = False
    for c, a in cmds:
        lc = c.lower()
        if omitted_arc and lc in "st" and notes is not None:
            # SVG says a zero-length arc is "omitted entirely"; whether a shorthand right after it
            # still sees the curve before the arc is not defined -> callers may skip such paths
            notes.append("shorthand-after-omitted-arc")
        omitted_arc = False
        if lc not in NARGS:
            raise PathError(f"bad command {c}")
        if len(a) != NARGS[lc]:
            raise PathError(f"{c} takes {NARGS[lc]} args, got {len(a)}")
        rel = c.islower() and not (first and lc == "m")
        if first and lc != "m":
            raise PathError("path must start with moveto")
        first = False
        ox, oy = cur if rel else (0.0, 0.0)
        new_cubic = new_quad = None
        if lc == "m":
            cur = (a[0] + ox, a[1] + oy)
            start = cur
            sub = {"start": cur, "segs": [], "closed": False}
            subs.append(sub)
        elif lc == "z":
            if sub is None:
                # closepath right after closepath: closes a new, empty subpath at the same point
                sub = {"start": start, "segs": [], "closed": False, "implicit_start": True}
                subs.append(sub)
            sub["closed"] = True
            cur = start
            sub = None  # a following drawing command opens a new subpath at `start`
        else:
            if sub is None:
                sub = {"start": start, "segs": [], "closed": False, "implicit_start": True}
                subs.append(sub)
            p0 = cur
            if lc == "l":
                p1 = (a[0] + ox, a[1] + oy)
                sub["segs"].append(("L", p0, p1))
            elif lc == "h":
                p1 = (a[0] + ox, cur[1])
                sub["segs"].append(("L", p0, p1))
            elif lc == "v":
                p1 = (cur[0], a[0] + oy)
                sub["segs"].append(("L", p0, p1))
            elif lc == "c":
                c1 = (a[0] + ox, a[1] + oy)
                c2 = (a[2] + ox, a[3] + oy)
                p1 = (a[4] + ox, a[5] + oy)
                sub["segs"].append(("C", p0, c1, c2, p1))
                new_cubic = c2
            elif lc == "s":
                c1 = (2 * cur[0] - last_cubic_ctrl[0], 2 * cur[1] - last_cubic_ctrl[1]) if last_cubic_ctrl else cur
                c2 = (a[0] + ox, a[1] + oy)
                p1 = (a[2] + ox, a[3] + oy)
                sub["segs"].append(("C", p0, c1, c2, p1))
                new_cubic = c2
            elif lc == "q":
                c1 = (a[0] + ox, a[1] + oy)
                p1 = (a[2] + ox, a[3] + oy)
                sub["segs"].append(("Q", p0, c1, p1))
                new_quad = c1
            elif lc == "t":
                c1 = (2 * cur[0] - last_quad_ctrl[0], 2 * cur[1] - last_quad_ctrl[1]) if last_quad_ctrl else cur
                p1 = (a[0] + ox, a[1] + oy)
                sub["segs"].append(("Q", p0, c1, p1))
                new_quad = c1
            elif lc == "a":
                p1 = (a[5] + ox, a[6] + oy)
                if p1 == p0:
                    omitted_arc = True  # F.6.2: identical endpoints = the arc segment is omitted entirely
                elif a[0] == 0 or a[1] == 0:
                    sub["segs"].append(("L", p0, p1))  # F.6.2: zero radius = straight line
                else:
                    sub["segs"].append(("A", p0, (abs(a[0]), abs(a[1]), a[2], int(a[3]), int(a[4])), p1))
            cur = p1
        last_cubic_ctrl, last_quad_ctrl = new_cubic, new_quad
    return subs


# ---------------------------------------------------------------- evaluation of segments


def seg_end(seg):
    return seg[-1]


def seg_point(seg, t):
    k = seg[0]
    if k == "L":
        p0, p1 = seg[1], seg[2]
        return (p0[0] + (p1[0] - p0[0]) * t, p0[1] + (p1[1] - p0[1]) * t)
    if k == "Q":
        p0, c, p1 = seg[1], seg[2], seg[3]
        mt = 1 - t
        return (mt * mt * p0[0] + 2 * mt * t * c[0] + t * t * p1[0], mt * mt * p0[1] + 2 * mt * t * c[1] + t * t * p1[1])
    if k == "C":
        p0, c1, c2, p1 = seg[1:]
        mt = 1 - t
        a, b, c, d = mt**3, 3 * mt * mt * t, 3 * mt * t * t, t**3
        return (a * p0[0] + b * c1[0] + c * c2[0] + d * p1[0], a * p0[1] + b * c1[1] + c * c2[1] + d * p1[1])
    if k == "A":
        p0, (rx, ry, rot, large, sweep), p1 = seg[1], seg[2], seg[3]
        arc = arcref.centre_param(p0[0], p0[1], rx, ry, rot, large, sweep, p1[0], p1[1])
        if arc is None:
            return (p0[0] + (p1[0] - p0[0]) * t, p0[1] + (p1[1] - p0[1]) * t)
        if t == 1:
            return p1
        if t == 0:
            return p0
        return arc.point(arc.theta1 + arc.dtheta * t)
    raise PathError(k)


def seg_polyline(seg, tol):
    """Points t in (0,1] of a flattening with chord error <= tol (uniform parameter steps)."""
    k = seg[0]
    if k == "L":
        return [seg[2]]
    if k in ("Q", "C"):
        pts = seg[1:]
        # upper bound of the second difference -> number of steps (standard flatness estimate)
        if k == "Q":
            dd = math.hypot(pts[0][0] - 2 * pts[1][0] + pts[2][0], pts[0][1] - 2 * pts[1][1] + pts[2][1])
            n = math.ceil(math.sqrt(max(dd, 0.0) / (4 * tol))) if tol > 0 else 1
        else:
            d1 = math.hypot(pts[0][0] - 2 * pts[1][0] + pts[2][0], pts[0][1] - 2 * pts[1][1] + pts[2][1])
            d2 = math.hypot(pts[1][0] - 2 * pts[2][0] + pts[3][0], pts[1][1] - 2 * pts[2][1] + pts[3][1])
            n = math.ceil(math.sqrt(3 * max(d1, d2) / (4 * tol))) if tol > 0 else 1
        n = max(1, min(int(n), 2000))
        return [seg_point(seg, i / n) for i in range(1, n)] + [seg[-1]]
    if k == "A":
        p0, (rx, ry, rot, large, sweep), p1 = seg[1], seg[2], seg[3]
        arc = arcref.centre_param(p0[0], p0[1], rx, ry, rot, large, sweep, p1[0], p1[1])
        if arc is None:
            return [] if p0 == p1 else [p1]
        r = max(arc.rx, arc.ry)
        # sagitta r(1-cos(d/2)) <= tol
        if tol >= r:
            step = math.pi / 2
        else:
            step = 2 * math.acos(max(-1.0, min(1.0, 1 - tol / r)))
        n = max(2, min(int(math.ceil(abs(arc.dtheta) / max(step, 1e-4))), 4000))
        return [arc.point(arc.theta1 + arc.dtheta * i / n) for i in range(1, n)] + [p1]
    raise PathError(k)


def flatten(subs, tol):
    """-> list of (points ndarray (n,2), closed flag, n_segments_drawn)."""
    out = []
    for s in subs:
        pts = [s["start"]]
        for seg in s["segs"]:
            pts.extend(seg_polyline(seg, tol))
        out.append((np.array(pts, dtype=float).reshape(-1, 2), s["closed"], len(s["segs"])))
    return out


def transform_points(arr, m):
    """m = (a,b,c,d,e,f)"""
    a, b, c, d, e, f = m
    x, y = arr[:, 0], arr[:, 1]
    return np.stack([a * x + c * y + e, b * x + d * y + f], axis=1)


# ---------------------------------------------------------------- regions from polylines


def edges_of(polys, close=True):
    """All edges (A, B) of polylines; fill regions close open subpaths implicitly."""
    A, B = [], []
    for pts, closed, _ in polys:
        if len(pts) < 2:
            continue
        A.append(pts[:-1])
        B.append(pts[1:])
        if close or closed:
            if not np.array_equal(pts[-1], pts[0]):
                A.append(pts[-1:])
                B.append(pts[:1])
    if not A:
        return np.zeros((0, 2)), np.zeros((0, 2))
    return np.concatenate(A), np.concatenate(B)


def winding(points, A, B):
    """Winding number of each point w.r.t. closed edge soup A->B. points (n,2)."""
    if len(A) == 0:
        return np.zeros(len(points), dtype=int)
    px = points[:, 0][:, None]
    py = points[:, 1][:, None]
    ax, ay, bx, by = A[:, 0][None, :], A[:, 1][None, :], B[:, 0][None, :], B[:, 1][None, :]
    up = (ay <= py) & (by > py)
    down = (ay > py) & (by <= py)
    cross = (bx - ax) * (py - ay) - (px - ax) * (by - ay)
    w = (up & (cross > 0)).sum(axis=1) - (down & (cross < 0)).sum(axis=1)
    return w


def inside(points, A, B, rule):
    w = winding(points, A, B)
    if rule == "evenodd":
        return (w % 2) != 0
    return w != 0


def dist_to_edges(points, A, B):
    """Distance of each point to the nearest edge; inf when there are no edges."""
    if len(A) == 0:
        return np.full(len(points), np.inf)
    out = np.full(len(points), np.inf)
    # chunk over edges to bound memory
    for i in range(0, len(A), 4096):
        a, b = A[i : i + 4096], B[i : i + 4096]
        d = b - a
        l2 = (d * d).sum(axis=1)
        l2s = np.where(l2 == 0, 1.0, l2)
        ap = points[:, None, :] - a[None, :, :]
        t = np.clip((ap * d[None, :, :]).sum(axis=2) / l2s[None, :], 0.0, 1.0)
        proj = a[None, :, :] + t[:, :, None] * d[None, :, :]
        dd = np.sqrt(((points[:, None, :] - proj) ** 2).sum(axis=2))
        out = np.minimum(out, dd.min(axis=1))
    return out


def polygon_area(A, B):
    """Signed area of the edge soup (sum over closed contours)."""
    return 0.5 * float((A[:, 0] * B[:, 1] - B[:, 0] * A[:, 1]).sum())


# ---------------------------------------------------------------- tight bounds


def _quad_extrema(p0, c, p1):
    ts = []
    for i in (0, 1):
        den = p0[i] - 2 * c[i] + p1[i]
        if den != 0:
            t = (p0[i] - c[i]) / den
            if 0 < t < 1:
                ts.append(t)
    return ts


def _cubic_extrema(p0, c1, c2, p1):
    ts = []
    for i in (0, 1):
        a = -p0[i] + 3 * c1[i] - 3 * c2[i] + p1[i]
        b = 2 * (p0[i] - 2 * c1[i] + c2[i])
        c = c1[i] - p0[i]
        if abs(a) < 1e-14 * (abs(b) + abs(c) + 1e-300):
            if b != 0:
                t = -c / b
                if 0 < t < 1:
                    ts.append(t)
        else:
            disc = b * b - 4 * a * c
            if disc >= 0:
                sq = math.sqrt(disc)
                for t in ((-b + sq) / (2 * a), (-b - sq) / (2 * a)):
                    if 0 < t < 1:
                        ts.append(t)
    return ts


def tight_bounds(subs, include_moves=False):
    """(xmin, ymin, xmax, ymax) of the drawn geometry (true curve extrema), or None.
    include_moves adds isolated/trailing moveto points."""
    xs, ys = [], []

    def add(p):
        xs.append(p[0])
        ys.append(p[1])

    for s in subs:
        if s["segs"] or include_moves:
            add(s["start"])
        for seg in s["segs"]:
            add(seg[1])
            add(seg[-1])
            k = seg[0]
            if k == "Q":
                for t in _quad_extrema(seg[1], seg[2], seg[3]):
                    add(seg_point(seg, t))
            elif k == "C":
                for t in _cubic_extrema(seg[1], seg[2], seg[3], seg[4]):
                    add(seg_point(seg, t))
            elif k == "A":
                p0, (rx, ry, rot, large, sweep), p1 = seg[1], seg[2], seg[3]
                arc = arcref.centre_param(p0[0], p0[1], rx, ry, rot, large, sweep, p1[0], p1[1])
                if arc is not None:
                    c, sn = math.cos(arc.phi), math.sin(arc.phi)
                    # dx/dtheta = 0 and dy/dtheta = 0
                    cands = [math.atan2(-arc.ry * sn, arc.rx * c), math.atan2(arc.ry * c, arc.rx * sn)]
                    for base in cands:
                        for k2 in range(-4, 5):
                            th = base + k2 * math.pi
                            rel = (th - arc.theta1) / arc.dtheta if arc.dtheta else -1
                            if 0 < rel < 1:
                                add(arc.point(th))
    if not xs:
        return None
    return (min(xs), min(ys), max(xs), max(ys))
