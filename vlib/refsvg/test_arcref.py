import math
from vlib.refsvg.arcref import centre_param


def _close(a, b, t=1e-12):
    return abs(a - b) <= t


def test_quarter_circle():
    a = centre_param(1, 0, 1, 1, 0, 0, 1, 0, 1)
    assert _close(a.cx, 0) and _close(a.cy, 0) and _close(a.theta1, 0) and _close(a.dtheta, math.pi / 2)
    a = centre_param(1, 0, 1, 1, 0, 1, 1, 0, 1)  # large arc, positive sweep: centre (1,1)
    assert _close(a.cx, 1) and _close(a.cy, 1) and _close(a.dtheta, 3 * math.pi / 2)
    a = centre_param(1, 0, 1, 1, 0, 0, 0, 0, 1)  # small, negative sweep: centre (1,1)
    assert _close(a.cx, 1) and _close(a.cy, 1) and _close(a.dtheta, -math.pi / 2)
    a = centre_param(1, 0, 1, 1, 0, 1, 0, 0, 1)
    assert _close(a.cx, 0) and _close(a.cy, 0) and _close(a.dtheta, -3 * math.pi / 2)


def test_scaled_radii_and_negative():
    a = centre_param(0, 0, 1, 1, 0, 0, 1, 10, 0)  # too small: scaled to r=5, half circle
    assert _close(a.rx, 5) and _close(a.ry, 5) and _close(a.cx, 5) and _close(a.cy, 0) and _close(abs(a.dtheta), math.pi)
    b = centre_param(0, 0, -5, 5, 0, 0, 1, 10, 0)
    assert _close(b.rx, 5) and _close(b.cx, 5) and _close(b.dtheta, math.pi)
    # sweep=1 from (0,0) to (10,0): positive-angle direction = through (5,-5) (y down: "clockwise" on screen)
    p = b.point(b.theta1 + b.dtheta / 2)
    assert _close(p[0], 5, 1e-9) and _close(p[1], -5, 1e-9)


def test_rotated_ellipse_points_on_curve():
    a = centre_param(3, 1, 4, 2, 30, 1, 0, -2, 5)
    for th in (a.theta1, a.theta1 + a.dtheta):
        pass
    p0 = a.point(a.theta1)
    p1 = a.point(a.theta1 + a.dtheta)
    assert _close(p0[0], 3, 1e-9) and _close(p0[1], 1, 1e-9) and _close(p1[0], -2, 1e-9) and _close(p1[1], 5, 1e-9)
    assert a.dtheta < 0 and abs(a.dtheta) > math.pi
    u = a.to_unit(a.point(1.234))
    assert _close(math.hypot(*u), 1, 1e-12)


def test_degenerate():
    assert centre_param(1, 1, 2, 2, 0, 0, 0, 1, 1) is None
    assert centre_param(0, 0, 0, 2, 0, 0, 0, 1, 1) is None
