"""Reference elliptical-arc geometry: SVG implementation notes F.6.5/F.6.6
(endpoint -> centre parameterisation with out-of-range radii correction).
No import of picosvg."""
from __future__ import annotations

import math
from typing import NamedTuple, Optional


class Arc(NamedTuple):
    cx: float
    cy: float
    rx: float  # corrected, absolute
    ry: float
    phi: float  # radians
    theta1: float
    dtheta: float
    lam: float  # Lambda before correction (>1 means radii were scaled up)

    def point(self, theta):
        c, s = math.cos(self.phi), math.sin(self.phi)
        x, y = self.rx * math.cos(theta), self.ry * math.sin(theta)
        return (self.cx + c * x - s * y, self.cy + s * x + c * y)

    def to_unit(self, p):
        """Map a point into the frame where the ellipse is the unit circle."""
        c, s = math.cos(self.phi), math.sin(self.phi)
        dx, dy = p[0] - self.cx, p[1] - self.cy
        return ((c * dx + s * dy) / self.rx, (-s * dx + c * dy) / self.ry)


def _angle(ux, uy, vx, vy):
    return math.atan2(ux * vy - uy * vx, ux * vx + uy * vy)


def centre_param(x1, y1, rx, ry, rot_deg, large, sweep, x2, y2) -> Optional[Arc]:
    """None when the arc degenerates (zero radius -> straight line; coincident endpoints -> nothing)."""
    if (x1, y1) == (x2, y2):
        return None
    rx, ry = abs(rx), abs(ry)
    if rx == 0 or ry == 0:
        return None
    phi = math.radians(rot_deg)
    c, s = math.cos(phi), math.sin(phi)
    hx, hy = (x1 - x2) / 2.0, (y1 - y2) / 2.0
    x1p = c * hx + s * hy
    y1p = -s * hx + c * hy
    lam = (x1p / rx) ** 2 + (y1p / ry) ** 2
    if lam > 1:
        k = math.sqrt(lam)
        rx *= k
        ry *= k
    # work in the unit-circle frame to stay well conditioned over many magnitudes
    ax, ay = x1p / rx, y1p / ry  # half-chord in unit frame; |a| <= 1
    d2 = ax * ax + ay * ay
    f2 = max(0.0, (1.0 - d2) / d2) if d2 > 0 else 0.0
    f = math.sqrt(f2)
    if bool(large) == bool(sweep):
        f = -f
    # centre in unit frame: f * (ay, -ax)   (F.6.5.2 with rx,ry factored out)
    ucx, ucy = f * ay, -f * ax
    cxp, cyp = ucx * rx, ucy * ry
    cx = c * cxp - s * cyp + (x1 + x2) / 2.0
    cy = s * cxp + c * cyp + (y1 + y2) / 2.0
    ux, uy = ax - ucx, ay - ucy
    vx, vy = -ax - ucx, -ay - ucy
    theta1 = _angle(1.0, 0.0, ux, uy)
    dtheta = _angle(ux, uy, vx, vy)
    if not sweep and dtheta > 0:
        dtheta -= 2 * math.pi
    elif sweep and dtheta < 0:
        dtheta += 2 * math.pi
    return Arc(cx, cy, rx, ry, phi, theta1, dtheta, lam)


def sample(arc: Arc, n: int):
    return [arc.point(arc.theta1 + arc.dtheta * i / n) for i in range(n + 1)]
