import numpy as np
from vlib.refsvg import render

NS = 'xmlns="http://www.w3.org/2000/svg" xmlns:xlink="http://www.w3.org/1999/xlink"'


def _r(body, pts, vb="0 0 100 100"):
    sc = render.build(f'<svg {NS} viewBox="{vb}">{body}</svg>')
    return sc.render(np.array(pts, dtype=float))


def _rgba(res, i):
    return [round(float(x), 4) for x in res.rgba[i]]


def test_transform_order_and_use():
    # translate then scale: point (1,1) of the rect lands at 10+2*1
    r = _r('<rect width="10" height="10" fill="red" transform="translate(10 20) scale(2)"/>', [(15, 25), (29, 39), (31, 39), (9, 25)])
    assert [bool(c) for c in r.covered] == [True, True, False, False]
    # use: use.transform * translate(x,y) * target.transform
    r = _r('<defs><rect id="a" width="10" height="10" fill="blue" transform="translate(5,0)"/></defs><use xlink:href="#a" x="10" y="10" transform="scale(2)"/>', [(31, 21), (49, 39), (29, 21), (51, 39)])
    assert [bool(c) for c in r.covered] == [True, True, False, False]
    # rotate about a centre
    r = _r('<rect x="50" y="40" width="30" height="20" fill="lime" transform="rotate(90 50 50)"/>', [(55, 55), (45, 65), (65, 45), (45, 79), (45, 81)])
    # (x,y) -> (50-(y-50), 50+(x-50)): region x in [40,60], y in [50,80]
    assert [bool(c) for c in r.covered] == [True, True, False, True, False]


def test_group_opacity_vs_flat():
    body = '<g opacity="0.5"><rect width="60" height="60" fill="red"/><rect x="30" y="30" width="60" height="60" fill="blue"/></g>'
    r = _r(body, [(45, 45), (10, 10), (80, 80)])
    assert _rgba(r, 0) == [0.0, 0.0, 0.5, 0.5]  # blue hides red inside the group, then 50 %
    flat = '<rect width="60" height="60" fill="red" opacity="0.5"/><rect x="30" y="30" width="60" height="60" fill="blue" opacity="0.5"/>'
    r2 = _r(flat, [(45, 45)])
    assert _rgba(r2, 0) == [0.25, 0.0, 0.5, 0.75]
    assert r.stack[0] == r2.stack[0]  # same ordered stack of paints, different compositing


def test_cascade_style_wins_and_inherit():
    r = _r('<g fill="red" style="fill:blue"><rect width="10" height="10"/><rect x="20" width="10" height="10" fill="lime" style="fill:#f0f"/></g>', [(5, 5), (25, 5)])
    assert _rgba(r, 0) == [0.0, 0.0, 1.0, 1.0] and _rgba(r, 1) == [1.0, 0.0, 1.0, 1.0]
    r = _r('<g display="none"><rect width="10" height="10"/></g><rect x="20" width="10" height="10" style="display:none"/>', [(5, 5), (25, 5)])
    assert not r.covered.any()


def test_clip_rules_and_nesting():
    body = '<defs><clipPath id="c"><path d="M0,0 H30 V30 H0 Z M10,10 H20 V20 H10 Z" clip-rule="evenodd"/></clipPath>' '<clipPath id="d" clip-path="url(#c)"><rect width="15" height="100"/></clipPath></defs>' '<rect width="100" height="100" fill="red" clip-path="url(#c)"/>'
    r = _r(body, [(5, 5), (15, 15), (25, 25), (40, 40)])
    assert [bool(c) for c in r.covered] == [True, False, True, False]
    body2 = body.replace('clip-path="url(#c)"/>', 'clip-path="url(#d)"/>')
    r = _r(body2, [(5, 5), (12, 15), (25, 25), (12, 25)])
    assert [bool(c) for c in r.covered] == [True, False, False, True]
    # clip is in the user space of the referencing element (incl. its own transform)
    body3 = '<defs><clipPath id="c"><rect width="10" height="10"/></clipPath></defs><rect width="100" height="100" fill="red" clip-path="url(#c)" transform="translate(50,50)"/>'
    r = _r(body3, [(55, 55), (5, 5), (65, 55)])
    assert [bool(c) for c in r.covered] == [True, False, False]


def test_nested_svg_viewport():
    body = '<svg x="10" y="10" width="40" height="20" viewBox="0 0 10 10"><rect width="10" height="10" fill="red"/><rect x="-5" width="5" height="10" fill="blue"/></svg>'
    # meet: scale 2, centred horizontally: content x from 10+10=20 to 40; overflow hidden clips blue at x<10
    r = _r(body, [(21, 15), (39, 29), (19, 15), (12, 15), (9, 15), (41, 15)])
    assert [bool(c) for c in r.covered] == [True, True, True, True, False, False]
    assert _rgba(r, 2) == [0.0, 0.0, 1.0, 1.0]
    body = body.replace('viewBox="0 0 10 10"', 'viewBox="0 0 10 10" preserveAspectRatio="xMinYMax slice"')
    # slice: scale 4; aligned x min (10), y max: content y from 10+20-40=-10 .. 30, clipped to viewport
    r = _r(body, [(11, 11), (49, 29), (30, 31), (30, 9)])
    assert [bool(c) for c in r.covered] == [True, True, False, False]


def test_trust_band():
    r = _r('<rect width="50" height="50" fill="red"/>', [(50.2, 25), (50.5, 25), (25, 25)])
    assert [bool(t) for t in r.trusted] == [False, True, True]  # eps = 0.4
