from vlib.refsvg.pathgrammar import parse, conforms, PathSyntaxError


def test_basic():
    assert parse("M1 2") == [("M", (1.0, 2.0))]
    assert parse("M1,2 3,4 5,6") == [("M", (1, 2)), ("L", (3, 4)), ("L", (5, 6))]
    assert parse("m1,2 3,4") == [("m", (1, 2)), ("l", (3, 4))]
    assert parse("") == [] and parse("  \n") == []
    assert parse("M0 0zm1 1Z") == [("M", (0, 0)), ("z", ()), ("m", (1, 1)), ("Z", ())]


def test_munch():
    assert parse("M00 01") == [("M", (0, 1))]
    assert parse("M1.5.5") == [("M", (1.5, 0.5))]
    assert parse("M1-2") == [("M", (1, -2))]
    assert parse("M1e1-2e-1") == [("M", (10, -0.2))]
    assert parse("M1.,2.") == [("M", (1, 2))]
    assert parse("M.5.5.5.5") == [("M", (0.5, 0.5)), ("L", (0.5, 0.5))]
    assert parse("M+1+2") == [("M", (1, 2))]
    assert parse("M0 0h1 2 3") == [("M", (0, 0)), ("h", (1,)), ("h", (2,)), ("h", (3,))]
    assert parse("M0 0\t\r\nL1\n,\t2") == [("M", (0, 0)), ("L", (1, 2))]


def test_arcs():
    assert parse("M0 0A1 2 3 0 1 4 5") == [("M", (0, 0)), ("A", (1, 2, 3, 0, 1, 4, 5))]
    assert parse("M0 0a1 2 3 014 5") == [("M", (0, 0)), ("a", (1, 2, 3, 0, 1, 4, 5))]
    assert parse("M0 0a1 2 3,1,0.5.5") == [("M", (0, 0)), ("a", (1, 2, 3, 1, 0, 0.5, 0.5))]
    assert parse("M0 0A1 1 0 0 0 1 1 2 2 0 1 1 3 3")[2] == ("A", (2, 2, 0, 1, 1, 3, 3))
    for bad in ["M0 0A1 2 30 1 4 5", "M0 0A-1 2 3 0 1 4 5", "M0 0A1 2 3 2 1 4 5", "M0 0A1 2 3 0 1 4"]:
        assert not conforms(bad), bad


def test_rejects():
    for bad in ["L1 2", "1 2", "M1", "M1 2 3", "M1,,2", "M1 2,", "M1 2L", "M1 2Z3", "M1e", "M1 2 x", "M 1 2 L 3 4,", "M.", "M-", "M1 -", "Mz", "M1 2ZM"]:
        assert not conforms(bad), bad
    for ok in ["M1 2Z", "M1 2 , 3 4", " M1 2 ", "M1 2ZM3 4", "M1 2zL3 4", "M1 2 Z L 3 4 z", "M1E2 3e+2"]:
        assert conforms(ok), ok
