"""Reference point-sampling SVG evaluator (independent of picosvg and Skia).

build(svg_text) -> Scene; scene.render(points) -> RenderResult with, per point,
  rgba   composited premultiplied colour (source-over, proper group opacity)
  stack  order-sensitive hash of the paints covering the point (z-order witness)
  trusted False when the point is within eps of an edge of any fill/clip region or in a
          stroke's unknown zone
Supported: the seven basic shapes + path, g, defs, use (x,y,transform), nested svg
(viewBox, preserveAspectRatio, overflow), transform lists, presentation attributes and
style declarations with inheritance, display:none, opacity, clipPath (clip-rule, transforms,
nested clip-path, use children), strokes (three-valued), linear/radial gradients.
"""
from __future__ import annotations

import math
import re
import xml.etree.ElementTree as ET
from dataclasses import dataclass, field
from typing import Dict, List, Optional, Tuple

import numpy as np

from vlib.refsvg import geom
from vlib.refsvg.pathgrammar import parse as parse_path, PathSyntaxError

SVG = "{http://www.w3.org/2000/svg}"
XLINK_HREF = "{http://www.w3.org/1999/xlink}href"

INHERITED = {
    "fill": "black",
    "fill-rule": "nonzero",
    "fill-opacity": "1",
    "clip-rule": "nonzero",
    "stroke": "none",
    "stroke-width": "1",
    "stroke-linecap": "butt",
    "stroke-linejoin": "miter",
    "stroke-miterlimit": "4",
    "stroke-dasharray": "none",
    "stroke-dashoffset": "0",
    "stroke-opacity": "1",
}
NON_INHERITED = ("opacity", "display", "clip-path")

NAMED = {
    "black": (0, 0, 0), "white": (255, 255, 255), "red": (255, 0, 0), "lime": (0, 255, 0), "green": (0, 128, 0),
    "blue": (0, 0, 255), "yellow": (255, 255, 0), "cyan": (0, 255, 255), "aqua": (0, 255, 255), "magenta": (255, 0, 255),
    "fuchsia": (255, 0, 255), "gray": (128, 128, 128), "grey": (128, 128, 128), "silver": (192, 192, 192), "maroon": (128, 0, 0),
    "olive": (128, 128, 0), "navy": (0, 0, 128), "purple": (128, 0, 128), "teal": (0, 128, 128), "orange": (255, 165, 0),
    "pink": (255, 192, 203), "brown": (165, 42, 42), "gold": (255, 215, 0), "indigo": (75, 0, 130), "violet": (238, 130, 238),
    "coral": (255, 127, 80), "salmon": (250, 128, 114), "khaki": (240, 230, 140), "plum": (221, 160, 221), "tan": (210, 180, 140),
}


class Unsupported(Exception):
    """The document uses something this evaluator deliberately does not model."""


# ------------------------------------------------------------------ small parsers


def parse_color(s: str):
    s = s.strip()
    if s.startswith("#"):
        h = s[1:]
        if len(h) == 3:
            return tuple(int(c * 2, 16) for c in h)
        if len(h) == 6:
            return tuple(int(h[i : i + 2], 16) for i in (0, 2, 4))
        raise Unsupported(f"colour {s}")
    m = re.match(r"rgb\(\s*(\d+)\s*,\s*(\d+)\s*,\s*(\d+)\s*\)$", s)
    if m:
        return tuple(min(255, int(g)) for g in m.groups())
    if s.lower() in NAMED:
        return NAMED[s.lower()]
    raise Unsupported(f"colour {s}")


_NUM = r"[-+]?(?:\d+\.?\d*|\.\d+)(?:[eE][-+]?\d+)?"


def mat_mul(m, n):
    """m after n:  (m @ n)(p) = m(n(p)).  Matrices are (a,b,c,d,e,f)."""
    a, b, c, d, e, f = m
    A, B, C, D, E, F = n
    return (a * A + c * B, b * A + d * B, a * C + c * D, b * C + d * D, a * E + c * F + e, b * E + d * F + f)


IDENT = (1.0, 0.0, 0.0, 1.0, 0.0, 0.0)


def mat_inv(m):
    a, b, c, d, e, f = m
    det = a * d - b * c
    if det == 0:
        return None
    ia, ib, ic, id_ = d / det, -b / det, -c / det, a / det
    return (ia, ib, ic, id_, -(ia * e + ic * f), -(ib * e + id_ * f))


def mat_apply(m, pts):
    return geom.transform_points(pts, m)


def mat_max_scale(m):
    a, b, c, d = m[:4]
    # largest singular value of [[a,c],[b,d]]
    s1 = a * a + b * b + c * c + d * d
    s2 = math.sqrt(max(0.0, (a * a + b * b - c * c - d * d) ** 2 + 4 * (a * c + b * d) ** 2))
    return math.sqrt(max(0.0, (s1 + s2) / 2))


def parse_transform(s: Optional[str]):
    """SVG 1.1 transform list -> matrix; list 'A B' means A applied outermost (M = A.B)."""
    if not s or not s.strip():
        return IDENT
    m = IDENT
    pos = 0
    s = s.strip()
    pat = re.compile(r"\s*(matrix|translate|scale|rotate|skewX|skewY)\s*\(([^)]*)\)\s*,?")
    while pos < len(s):
        mo = pat.match(s, pos)
        if not mo:
            raise Unsupported(f"transform {s!r}")
        pos = mo.end()
        name = mo.group(1)
        args = [float(x) for x in re.findall(_NUM, mo.group(2))]
        if name == "matrix":
            if len(args) != 6:
                raise Unsupported("matrix args")
            t = tuple(args)
        elif name == "translate":
            t = (1, 0, 0, 1, args[0], args[1] if len(args) > 1 else 0.0)
        elif name == "scale":
            t = (args[0], 0, 0, args[1] if len(args) > 1 else args[0], 0, 0)
        elif name == "rotate":
            a = math.radians(args[0])
            r = (math.cos(a), math.sin(a), -math.sin(a), math.cos(a), 0, 0)
            if len(args) == 3:
                cx, cy = args[1], args[2]
                t = mat_mul(mat_mul((1, 0, 0, 1, cx, cy), r), (1, 0, 0, 1, -cx, -cy))
            else:
                t = r
        elif name == "skewX":
            t = (1, 0, math.tan(math.radians(args[0])), 1, 0, 0)
        else:
            t = (1, math.tan(math.radians(args[0])), 0, 1, 0, 0)
        m = mat_mul(m, t)
    return m


def viewbox_transform(vb, vp, par: str):
    """Transform mapping viewBox rect vb=(x,y,w,h) into viewport rect vp per preserveAspectRatio."""
    vx, vy, vw, vh = vb
    px, py, pw, ph = vp
    if vw == 0 or vh == 0:
        raise Unsupported("empty viewBox")
    sx, sy = pw / vw, ph / vh
    parts = (par or "xMidYMid meet").split()
    align = parts[0]
    mos = parts[1] if len(parts) > 1 else "meet"
    if align != "none":
        s = max(sx, sy) if mos == "slice" else min(sx, sy)
        sx = sy = s
    tx = px - vx * sx
    ty = py - vy * sy
    if align != "none":
        al = align.lower()
        if "xmid" in al:
            tx += (pw - vw * sx) / 2
        elif "xmax" in al:
            tx += pw - vw * sx
        if "ymid" in al:
            ty += (ph - vh * sy) / 2
        elif "ymax" in al:
            ty += ph - vh * sy
    return (sx, 0.0, 0.0, sy, tx, ty)


def parse_style_decls(s: str) -> Dict[str, str]:
    out = {}
    for decl in s.split(";"):
        if ":" in decl:
            k, v = decl.split(":", 1)
            out[k.strip()] = v.strip()
    return out


# ------------------------------------------------------------------ scene graph


@dataclass
class Region:
    A: np.ndarray
    B: np.ndarray
    rule: str

    def inside(self, pts):
        return geom.inside(pts, self.A, self.B, self.rule)

    def dist(self, pts):
        return geom.dist_to_edges(pts, self.A, self.B)


@dataclass
class Clip:
    regions: List[Region]
    nested: Optional["Clip"] = None

    def inside(self, pts):
        m = np.zeros(len(pts), dtype=bool)
        for r in self.regions:
            m |= r.inside(pts)
        if self.nested is not None:
            m &= self.nested.inside(pts)
        return m

    def all_regions(self):
        out = list(self.regions)
        if self.nested is not None:
            out += self.nested.all_regions()
        return out


@dataclass
class Paint:
    kind: str  # 'solid' | 'gradient'
    rgb: Tuple[int, int, int] = (0, 0, 0)
    gradient: object = None  # evaluator: pts(root coords) -> (rgb float (N,3) 0..1, alpha (N,))
    key: int = 0


@dataclass
class Leaf:
    fill: Optional[Region]
    fill_paint: Optional[Paint]
    fill_alpha: float
    stroke: object  # StrokeRegion or None
    stroke_paint: Optional[Paint]
    stroke_alpha: float
    opacity: float
    clip: Optional[Clip]
    src: str = ""


@dataclass
class Group:
    children: list
    opacity: float
    clip: Optional[Clip]
    src: str = ""


@dataclass
class RenderResult:
    rgba: np.ndarray
    stack: np.ndarray
    trusted: np.ndarray
    covered: np.ndarray  # any visible paint at the point
    n_leaves: int


def _h(x) -> int:
    import zlib

    return zlib.crc32(repr(x).encode()) + 1


class Scene:
    def __init__(self, root_node, viewbox, eps, leaves, unsupported=None):
        self.root = root_node
        self.viewbox = viewbox
        self.eps = eps
        self.leaves = leaves

    # -- all edges that define trust
    def edge_sets(self):
        out = []

        def walk(n):
            if n.clip is not None:
                for r in n.clip.all_regions():
                    out.append((r.A, r.B))
            if isinstance(n, Group):
                for c in n.children:
                    walk(c)
            else:
                if n.fill is not None:
                    out.append((n.fill.A, n.fill.B))
                if n.stroke is not None:
                    out.append(n.stroke.root_edges())

        walk(self.root)
        return [(a, b) for a, b in out if len(a)]

    def sample_points(self, n_halton=160, n_edge=160):
        x, y, w, h = self.viewbox
        pts = []
        # Halton (2,3) over the viewBox inflated by 15 %
        for i in range(1, n_halton + 1):
            u = _halton(i, 2)
            v = _halton(i, 3)
            pts.append((x - 0.15 * w + 1.3 * w * u, y - 0.15 * h + 1.3 * h * v))
        es = self.edge_sets()
        if es:
            per = max(4, n_edge // len(es))
            for A, B in es:
                L = np.hypot(*(B - A).T)
                good = np.nonzero(L > 1e-9)[0]
                if len(good) == 0:
                    continue
                # pick edges spread along the contour (deterministic)
                idxs = good[np.linspace(0, len(good) - 1, num=min(per // 4 + 1, len(good))).astype(int)]
                for j in idxs:
                    mid = (A[j] + B[j]) / 2
                    d = (B[j] - A[j]) / L[j]
                    nrm = np.array([-d[1], d[0]])
                    for k in (2.0, -2.0, 4.0, -4.0):
                        pts.append(tuple(mid + nrm * k * self.eps))
        return np.array(pts, dtype=float)

    def render(self, pts) -> RenderResult:
        N = len(pts)
        stack = np.zeros(N, dtype=np.uint64)
        untrusted = np.zeros(N, dtype=bool)
        covered = np.zeros(N, dtype=bool)
        eps = self.eps

        def mark(region_like):
            nonlocal untrusted
            untrusted |= region_like.dist(pts) < eps

        def clip_mask(n, mask):
            if n.clip is None:
                return mask
            for r in n.clip.all_regions():
                mark(r)
            return mask & n.clip.inside(pts)

        def paint(n, mask, vis):
            """returns premultiplied (rgb (N,3), a (N,))"""
            nonlocal stack, untrusted, covered
            mask = clip_mask(n, mask)
            rgb = np.zeros((N, 3))
            a = np.zeros(N)
            if isinstance(n, Group):
                v = vis and n.opacity > 0
                for c in n.children:
                    crgb, ca = paint(c, mask, v)
                    rgb = crgb + rgb * (1 - ca)[:, None]
                    a = ca + a * (1 - ca)
                return rgb * n.opacity, a * n.opacity
            v = vis and n.opacity > 0
            if n.fill is not None:
                mark(n.fill)
                if n.fill_paint is not None:
                    cov = n.fill.inside(pts) & mask
                    col, al = _eval_paint(n.fill_paint, pts)
                    al = al * n.fill_alpha * cov
                    rgb = col * al[:, None]
                    a = al
                    if v and n.fill_alpha > 0:
                        c2 = cov & (al > 0)
                        stack = np.where(c2, stack * np.uint64(1000003) + np.uint64(n.fill_paint.key), stack)
                        covered |= c2
            if n.stroke is not None:
                ins = n.stroke.classify(pts)  # 1 inside, 0 outside, -1 unknown
                untrusted |= ins < 0
                if n.stroke_paint is not None:
                    cov = (ins == 1) & mask
                    col, al = _eval_paint(n.stroke_paint, pts)
                    al = al * n.stroke_alpha * cov
                    rgb = col * al[:, None] + rgb * (1 - al)[:, None]
                    a = al + a * (1 - al)
                    if v and n.stroke_alpha > 0:
                        c2 = cov & (al > 0)
                        stack = np.where(c2, stack * np.uint64(1000003) + np.uint64(n.stroke_paint.key), stack)
                        covered |= c2
            return rgb * n.opacity, a * n.opacity

        with np.errstate(over="ignore"):
            rgb, a = paint(self.root, np.ones(N, dtype=bool), True)
        return RenderResult(np.concatenate([rgb, a[:, None]], axis=1), stack, ~untrusted, covered, len(self.leaves))


def _eval_paint(p: Paint, pts):
    if p.kind == "solid":
        return np.tile(np.array(p.rgb, dtype=float) / 255.0, (len(pts), 1)), np.ones(len(pts))
    return p.gradient(pts)


def _halton(i, base):
    f, r = 1.0, 0.0
    while i > 0:
        f /= base
        r += f * (i % base)
        i //= base
    return r


# ------------------------------------------------------------------ builder


class _Builder:
    def __init__(self, text: str, eps_pct=0.4, strokes=True, gradients=True):
        self.root = ET.fromstring(text.encode("utf-8") if isinstance(text, str) else text)
        if self.root.tag != SVG + "svg":
            raise Unsupported("root is not svg")
        self.by_id = {}
        for el in self.root.iter():
            i = el.get("id")
            if i is not None and i not in self.by_id:
                self.by_id[i] = el
        self.viewbox = self._root_viewbox()
        self.eps = max(self.viewbox[2], self.viewbox[3]) * eps_pct / 100.0
        self.tol = self.eps / 20.0
        self.leaves = []
        self.want_strokes = strokes
        self.want_gradients = gradients
        self.use_depth = 0

    def _root_viewbox(self):
        vb = self.root.get("viewBox")
        if vb:
            v = [float(x) for x in re.split(r"[,\s]+", vb.strip())]
            return tuple(v)
        w, h = self.root.get("width"), self.root.get("height")
        if w and h:
            return (0.0, 0.0, float(w), float(h))
        raise Unsupported("no viewBox")

    # ---- cascade
    def declared(self, el) -> Dict[str, str]:
        d = {}
        for k in list(INHERITED) + list(NON_INHERITED):
            v = el.get(k)
            if v is not None:
                d[k] = v.strip()
        st = el.get("style")
        if st:
            for k, v in parse_style_decls(st).items():
                if k in INHERITED or k in NON_INHERITED:
                    d[k] = v
        return d

    def computed(self, el, parent: Dict[str, str]) -> Dict[str, str]:
        d = self.declared(el)
        out = {}
        for k in INHERITED:
            v = d.get(k)
            if v == "inherit":
                v = None
            out[k] = v if v is not None else parent[k]
        for k in NON_INHERITED:
            out[k] = d.get(k)
        return out

    # ---- geometry
    def shape_subpaths(self, el):
        """-> (subpaths in user space, fillable) or None when the element renders nothing."""
        tag = el.tag[len(SVG) :]
        f = lambda k, dflt=0.0: float(el.get(k, dflt))
        if tag == "path":
            d = el.get("d", "")
            try:
                cmds = parse_path(d)
            except PathSyntaxError as e:
                raise Unsupported(f"path data: {e}")
            if not cmds:
                return None
            return geom.interpret(cmds), True
        if tag == "rect":
            x, y, w, h = f("x"), f("y"), f("width"), f("height")
            if w <= 0 or h <= 0:
                return None
            rx = el.get("rx")
            ry = el.get("ry")
            rx = float(rx) if rx is not None else None
            ry = float(ry) if ry is not None else None
            if rx is None and ry is None:
                rx = ry = 0.0
            elif rx is None:
                rx = ry
            elif ry is None:
                ry = rx
            rx, ry = min(rx, w / 2), min(ry, h / 2)
            if rx > 0 and ry > 0:
                cmds = [("M", (x + rx, y)), ("H", (x + w - rx,)), ("A", (rx, ry, 0, 0, 1, x + w, y + ry)), ("V", (y + h - ry,)), ("A", (rx, ry, 0, 0, 1, x + w - rx, y + h)), ("H", (x + rx,)), ("A", (rx, ry, 0, 0, 1, x, y + h - ry)), ("V", (y + ry,)), ("A", (rx, ry, 0, 0, 1, x + rx, y)), ("Z", ())]
            else:
                cmds = [("M", (x, y)), ("H", (x + w,)), ("V", (y + h,)), ("H", (x,)), ("Z", ())]
            return geom.interpret(cmds), True
        if tag in ("circle", "ellipse"):
            cx, cy = f("cx"), f("cy")
            if tag == "circle":
                rx = ry = f("r")
            else:
                rx, ry = f("rx"), f("ry")
            if rx <= 0 or ry <= 0:
                return None
            cmds = [("M", (cx + rx, cy)), ("A", (rx, ry, 0, 0, 1, cx, cy + ry)), ("A", (rx, ry, 0, 0, 1, cx - rx, cy)), ("A", (rx, ry, 0, 0, 1, cx, cy - ry)), ("A", (rx, ry, 0, 0, 1, cx + rx, cy)), ("Z", ())]
            return geom.interpret(cmds), True
        if tag == "line":
            cmds = [("M", (f("x1"), f("y1"))), ("L", (f("x2"), f("y2")))]
            return geom.interpret(cmds), False
        if tag in ("polyline", "polygon"):
            nums = [float(x) for x in re.findall(_NUM, el.get("points", ""))]
            if len(nums) < 2 or len(nums) % 2:
                if len(nums) < 2:
                    return None
                raise Unsupported("odd points")
            pts = list(zip(nums[0::2], nums[1::2]))
            cmds = [("M", pts[0])] + [("L", p) for p in pts[1:]]
            if tag == "polygon":
                cmds.append(("Z", ()))
            return geom.interpret(cmds), True
        return None

    def region(self, subs, ctm, rule) -> Region:
        sc = mat_max_scale(ctm)
        tol = self.tol / sc if sc > 0 else self.tol
        polys = geom.flatten(subs, tol)
        polys = [(mat_apply(ctm, p), c, n) for p, c, n in polys]
        A, B = geom.edges_of(polys, close=True)
        return Region(A, B, rule)

    # ---- paint
    def paint_of(self, value: str, el, ctm, subs) -> Optional[Paint]:
        if value is None or value == "none":
            return None
        if value.startswith("url("):
            if not self.want_gradients:
                raise Unsupported("gradient")
            from vlib.refsvg import gradient as G

            m = re.match(r"url\(\s*#([^)\s]+)\s*\)", value)
            if not m or m.group(1) not in self.by_id:
                raise Unsupported(f"paint {value}")
            ev = G.make_evaluator(self, self.by_id[m.group(1)], ctm, subs)
            return Paint("gradient", gradient=ev, key=_h(("grad",)))
        if value in ("currentColor", "inherit"):
            raise Unsupported(value)
        rgb = parse_color(value)
        return Paint("solid", rgb=rgb, key=_h(rgb))

    # ---- clip
    def clip_for(self, el, ctm, cstyle, seen=()) -> Optional[Clip]:
        cp = cstyle.get("clip-path")
        if not cp or cp == "none":
            return None
        m = re.match(r"url\(\s*#([^)\s]+)\s*\)$", cp)
        if not m:
            raise Unsupported(f"clip-path {cp}")
        return self.clip_region(m.group(1), ctm, seen)

    def clip_region(self, cid, ctm, seen=()) -> Clip:
        if cid in seen:
            raise Unsupported("clip cycle")
        cel = self.by_id.get(cid)
        if cel is None or cel.tag != SVG + "clipPath":
            raise Unsupported(f"clipPath {cid}")
        if cel.get("clipPathUnits", "userSpaceOnUse") != "userSpaceOnUse":
            raise Unsupported("clipPathUnits")
        base = dict(INHERITED)
        # clip-rule is inherited: ancestors of the clipPath (incl. itself) contribute
        chain = []
        p = cel
        parent_map = self._parents()
        while p is not None:
            chain.append(p)
            p = parent_map.get(p)
        st = base
        for anc in reversed(chain):
            st = self.computed(anc, st)
        m_cp = mat_mul(ctm, parse_transform(cel.get("transform")))
        regions = []
        for ch in cel:
            if not isinstance(ch.tag, str):
                continue
            self._clip_child(ch, m_cp, st, regions)
        nested = None
        ncp = self.declared(cel).get("clip-path")
        if ncp and ncp != "none":
            mm = re.match(r"url\(\s*#([^)\s]+)\s*\)$", ncp)
            if not mm:
                raise Unsupported("clip-path value")
            # the nested clip is referenced by the clipPath element, i.e. it lives in that element's
            # coordinate system, which includes the clipPath's own transform (same rule as for g/shape)
            nested = self.clip_region(mm.group(1), m_cp, seen + (cid,))
        return Clip(regions, nested)

    def _clip_child(self, ch, m_cp, pstyle, regions):
        tag = ch.tag[len(SVG) :]
        cs = self.computed(ch, pstyle)
        if cs.get("display") == "none":
            return
        if cs.get("clip-path") not in (None, "none"):
            raise Unsupported("clip-path on clipPath child")
        m = mat_mul(m_cp, parse_transform(ch.get("transform")))
        if tag == "use":
            tgt = self._use_target(ch)
            m = mat_mul(m, (1, 0, 0, 1, float(ch.get("x", 0)), float(ch.get("y", 0))))
            self._clip_child(tgt, m, cs, regions)
            return
        sp = self.shape_subpaths(ch)
        if sp is None:
            if tag in ("path", "rect", "circle", "ellipse", "line", "polyline", "polygon"):
                return
            raise Unsupported(f"clipPath child {tag}")
        subs, fillable = sp
        if not fillable:
            return
        regions.append(self.region(subs, m, cs["clip-rule"]))

    def _parents(self):
        if not hasattr(self, "_pm"):
            self._pm = {c: p for p in self.root.iter() for c in p}
        return self._pm

    def _use_target(self, el):
        href = el.get(XLINK_HREF) or el.get("href")
        if not href or not href.startswith("#") or href[1:] not in self.by_id:
            raise Unsupported(f"use href {href}")
        return self.by_id[href[1:]]

    # ---- traversal
    def build_node(self, el, ctm, pstyle, viewport):
        tag = el.tag
        if not isinstance(tag, str) or not tag.startswith(SVG):
            return None
        t = tag[len(SVG) :]
        if t in ("defs", "clipPath", "linearGradient", "radialGradient", "symbol", "title", "desc", "metadata", "style", "stop", "mask", "pattern", "marker", "filter"):
            return None
        cs = self.computed(el, pstyle)
        if cs.get("display") == "none":
            return None
        opacity = float(cs["opacity"]) if cs.get("opacity") not in (None, "") else 1.0
        opacity = min(1.0, max(0.0, opacity))
        if t == "svg" and el is not self.root:
            return self._nested_svg(el, ctm, cs, opacity, viewport)
        m = mat_mul(ctm, parse_transform(el.get("transform")))
        if t == "g":
            clip = self.clip_for(el, m, cs)
            kids = [k for k in (self.build_node(c, m, cs, viewport) for c in el) if k is not None]
            return Group(kids, opacity, clip, "g")
        if t == "use":
            self.use_depth += 1
            if self.use_depth > 50:
                raise Unsupported("use recursion")
            tgt = self._use_target(el)
            if tgt.tag in (SVG + "symbol", SVG + "svg"):
                raise Unsupported("use of symbol/svg")
            # SVG 1.1 5.6: use = <g transform="[use.transform] translate(x,y)"> carrying the other
            # attributes of the use, so its clip-path lives in the space that includes translate(x,y)
            m2 = mat_mul(m, (1, 0, 0, 1, float(el.get("x", 0)), float(el.get("y", 0))))
            clip = self.clip_for(el, m2, cs)
            kid = self.build_node(tgt, m2, cs, viewport)
            self.use_depth -= 1
            return Group([kid] if kid is not None else [], opacity, clip, "use")
        if t in ("path", "rect", "circle", "ellipse", "line", "polyline", "polygon"):
            sp = self.shape_subpaths(el)
            if sp is None:
                return None
            subs, fillable = sp
            if mat_inv(m) is None:
                return None  # degenerate CTM: nothing rendered
            clip = self.clip_for(el, m, cs)
            fill_region = self.region(subs, m, cs["fill-rule"]) if fillable else None
            fp = self.paint_of(cs["fill"], el, m, subs) if fillable else None
            sreg = spaint = None
            if cs["stroke"] != "none":
                if not self.want_strokes:
                    raise Unsupported("stroke")
                from vlib.refsvg import stroke3

                sw = float(cs["stroke-width"])
                if sw > 0:
                    sreg = stroke3.StrokeRegion(subs, m, sw, cs["stroke-linecap"], cs["stroke-linejoin"], float(cs["stroke-miterlimit"]), cs["stroke-dasharray"], float(cs["stroke-dashoffset"]), self.tol, self.viewbox)
                    spaint = self.paint_of(cs["stroke"], el, m, subs)
            leaf = Leaf(fill_region if fp is not None else None, fp, min(1.0, max(0.0, float(cs["fill-opacity"]))), sreg, spaint, min(1.0, max(0.0, float(cs["stroke-opacity"]))), opacity, clip, t)
            self.leaves.append(leaf)
            return leaf
        raise Unsupported(f"element {t}")

    def _nested_svg(self, el, ctm, cs, opacity, viewport):
        x, y = float(el.get("x", 0)), float(el.get("y", 0))
        w = float(el.get("width", viewport[0]))
        h = float(el.get("height", viewport[1]))
        if w <= 0 or h <= 0:
            return None
        vb = el.get("viewBox")
        inner_vp = (w, h)
        if vb:
            v = tuple(float(t) for t in re.split(r"[,\s]+", vb.strip()))
            t = viewbox_transform(v, (x, y, w, h), el.get("preserveAspectRatio"))
            inner_vp = (v[2], v[3])
        else:
            t = (1, 0, 0, 1, x, y)
        m = mat_mul(ctm, t)
        clip = None
        ov = el.get("overflow", "hidden")
        if ov in ("hidden", "scroll"):
            rect = geom.interpret([("M", (x, y)), ("H", (x + w,)), ("V", (y + h,)), ("H", (x,)), ("Z", ())])
            clip = Clip([self.region(rect, ctm, "nonzero")])
        elif ov not in ("visible", "auto"):
            raise Unsupported(f"overflow {ov}")
        kids = [k for k in (self.build_node(c, m, cs, inner_vp) for c in el) if k is not None]
        return Group(kids, opacity, clip, "svg")

    def build(self) -> Scene:
        base = dict(INHERITED)
        cs = self.computed(self.root, base)
        if cs.get("display") == "none":
            root = Group([], 1.0, None, "root")
        else:
            opacity = float(cs["opacity"]) if cs.get("opacity") not in (None, "") else 1.0
            kids = [k for k in (self.build_node(c, IDENT, cs, (self.viewbox[2], self.viewbox[3])) for c in self.root) if k is not None]
            root = Group(kids, min(1.0, max(0.0, opacity)), None, "root")
        return Scene(root, self.viewbox, self.eps, self.leaves)


def build(text: str, eps_pct=0.4, strokes=True, gradients=True) -> Scene:
    return _Builder(text, eps_pct, strokes, gradients).build()
