"""Three-valued reference membership for SVG strokes (independent of Skia).

classify(points in root coordinates) -> int array: 1 definitely inside the ideal stroke,
0 definitely outside, -1 unknown (near caps, joins, dash ends, within the stroker tolerance).
Everything is evaluated in the shape's own user space (q = CTM^-1 p), so outer non-uniform
scaling / skewing is exact.
"""
from __future__ import annotations

import math
import re

import numpy as np

from vlib.refsvg import geom


def _inv(m):
    a, b, c, d, e, f = m
    det = a * d - b * c
    ia, ib, ic, id_ = d / det, -b / det, -c / det, a / det
    return (ia, ib, ic, id_, -(ia * e + ic * f), -(ib * e + id_ * f))


def _max_scale(m):
    a, b, c, d = m[:4]
    s1 = a * a + b * b + c * c + d * d
    s2 = math.sqrt(max(0.0, (a * a + b * b - c * c - d * d) ** 2 + 4 * (a * c + b * d) ** 2))
    return math.sqrt(max(0.0, (s1 + s2) / 2))


def parse_dashes(s):
    if s is None or s.strip() in ("", "none"):
        return []
    vals = [float(v) for v in re.split(r"[,\s]+", s.strip()) if v]
    if any(v < 0 for v in vals) or sum(vals) <= 0:
        return []
    if len(vals) % 2:
        vals = vals + vals
    return vals


class StrokeRegion:
    def __init__(self, subs, ctm, width, cap, join, miterlimit, dasharray, dashoffset, tol_root, viewbox, curve_tau=0.25):
        self.ctm = ctm
        self.inv = _inv(ctm)
        self.half = width / 2.0
        self.cap, self.join = cap, join
        self.dashes = parse_dashes(dasharray)
        self.offset = dashoffset
        sc = _max_scale(ctm) or 1.0
        tol_user = tol_root / sc
        # picosvg passes its viewBox tolerance (0.1 % of the smaller side) to the conic->quad step
        conic_tol = 0.001 * min(viewbox[2], viewbox[3])
        segsA, segsB, s0s, s1s, smooth_pts, smooth_s, smooth_i, rho = [], [], [], [], [], [], [], []
        self.has_curves = False
        self.has_corners = False
        self.dots = []
        for sub in subs:
            if not sub["segs"]:
                if sub["closed"]:
                    self.dots.append(sub["start"])
                continue
            s = 0.0
            first_pt = sub["start"]
            for seg in sub["segs"]:
                pts = [seg[1]] + geom.seg_polyline(seg, min(tol_user, max(self.half, 1e-6) * 0.02 + 1e-6))
                if seg[0] != "L":
                    self.has_curves = True
                if len(pts) == 2 and pts[0] == pts[1]:
                    self.dots.append(pts[0])
                    continue
                # local radius of curvature of each flattened piece (inf for straight commands): where the
                # stroke is wider than that radius the inner offset folds over and renderers differ -> the
                # "definitely inside" strip is limited to 0.8 x that radius, the rest is unknown
                rr = [math.inf] * (len(pts) - 1)
                if seg[0] != "L" and len(pts) > 2:
                    dirs = [math.atan2(pts[j + 1][1] - pts[j][1], pts[j + 1][0] - pts[j][0]) for j in range(len(pts) - 1)]
                    lens = [math.hypot(pts[j + 1][0] - pts[j][0], pts[j + 1][1] - pts[j][1]) for j in range(len(pts) - 1)]
                    turn = [abs(math.remainder(dirs[j + 1] - dirs[j], 2 * math.pi)) for j in range(len(dirs) - 1)]
                    for j in range(len(pts) - 1):
                        ks = []
                        if j > 0 and lens[j - 1] + lens[j] > 0:
                            ks.append(2 * turn[j - 1] / (lens[j - 1] + lens[j]))
                        if j < len(turn) and lens[j] + lens[j + 1] > 0:
                            ks.append(2 * turn[j] / (lens[j] + lens[j + 1]))
                        k = max(ks) if ks else 0.0
                        rr[j] = 1.0 / k if k > 0 else math.inf
                for i in range(len(pts) - 1):
                    a, b = pts[i], pts[i + 1]
                    ln = math.hypot(b[0] - a[0], b[1] - a[1])
                    if ln == 0:
                        continue
                    rho.append(rr[i])
                    segsA.append(a)
                    segsB.append(b)
                    s0s.append(s)
                    s += ln
                    s1s.append(s)
                    if i + 1 < len(pts) - 1:  # interior vertex of a flattened curve: smooth
                        smooth_pts.append(b)
                        smooth_s.append(s)
                        smooth_i.append(len(segsA) - 1)  # segment ending here; the next one starts here
            nseg = len(sub["segs"])
            if nseg > 1 or sub["closed"]:
                self.has_corners = True
            if sub["closed"] and (sub["segs"][-1][-1] != first_pt):
                a, b = sub["segs"][-1][-1], first_pt
                ln = math.hypot(b[0] - a[0], b[1] - a[1])
                if ln > 0:
                    rho.append(math.inf)
                    segsA.append(a)
                    segsB.append(b)
                    s0s.append(s)
                    s += ln
                    s1s.append(s)
        self.rho = np.array(rho, dtype=float)
        self.A = np.array(segsA, dtype=float).reshape(-1, 2)
        self.B = np.array(segsB, dtype=float).reshape(-1, 2)
        self.s0 = np.array(s0s, dtype=float)
        self.s1 = np.array(s1s, dtype=float)
        self.SP = np.array(smooth_pts, dtype=float).reshape(-1, 2)
        self.SS = np.array(smooth_s, dtype=float)
        self.SI = np.array(smooth_i, dtype=int)
        # conics (and with them picosvg's conic->quad tolerance, which is in root units whatever the local scale)
        # only arise from round caps/joins and curved centre lines; a polyline with butt/square caps and
        # miter/bevel joins is outlined with straight segments only
        if not (self.has_curves or cap == "round" or join == "round"):
            conic_tol = 0.0
        self.tau = (curve_tau if self.has_curves else 0.01 * self.half + min(1e-3, 0.02 * self.half)) + conic_tol
        K = 1.0
        if cap == "square":
            K = max(K, math.sqrt(2.0))
        if join == "miter" and self.has_corners:
            K = max(K, miterlimit)
        self.R = self.half * K + self.tau
        self.period = sum(self.dashes)

    # ---- dash helpers (vectorised over arrays of arc-length values)
    def _on_margin(self, s, margin):
        """True where s lies inside an on-interval, at least `margin` from its ends."""
        if not self.dashes:
            return np.ones_like(s, dtype=bool)
        pos = np.mod(s + self.offset, self.period)
        ok = np.zeros_like(s, dtype=bool)
        start = 0.0
        for i, d in enumerate(self.dashes):
            if i % 2 == 0 and d > 2 * margin:
                ok |= (pos >= start + margin) & (pos <= start + d - margin)
            start += d
        return ok

    def _range_off(self, lo, hi, margin):
        """True where the whole range [lo-margin, hi+margin] lies inside one off-interval."""
        if not self.dashes:
            return np.zeros_like(lo, dtype=bool)
        lo2, hi2 = lo - margin, hi + margin
        width = hi2 - lo2
        pos = np.mod(lo2 + self.offset, self.period)
        ok = np.zeros_like(lo, dtype=bool)
        start = 0.0
        for i, d in enumerate(self.dashes):
            if i % 2 == 1:
                ok |= (pos >= start) & (pos + width <= start + d)
            start += d
        return ok

    def classify(self, pts_root):
        N = len(pts_root)
        out = np.full(N, -1, dtype=int)
        if len(self.A) == 0 or self.half <= 0:
            res = np.zeros(N, dtype=int)
            if self.dots and self.half > 0:
                q = geom.transform_points(pts_root, self.inv)
                for d in self.dots:
                    near = np.hypot(q[:, 0] - d[0], q[:, 1] - d[1]) <= self.R
                    res[near] = -1
            return res
        q = geom.transform_points(pts_root, self.inv)
        a, b = self.A[None, :, :], self.B[None, :, :]
        d = b - a
        l2 = (d * d).sum(axis=2)
        ap = q[:, None, :] - a
        t_raw = (ap * d).sum(axis=2) / l2
        t = np.clip(t_raw, 0.0, 1.0)
        foot = a + t[:, :, None] * d
        dist = np.sqrt(((q[:, None, :] - foot) ** 2).sum(axis=2))  # (N, M) distance to each segment
        perp_in = (t_raw >= 0.0) & (t_raw <= 1.0)
        s_foot = self.s0[None, :] + t * np.sqrt(l2)
        inner = self.half - self.tau
        inside = np.zeros(N, dtype=bool)
        if inner > 0:
            lim = np.minimum(inner, 0.8 * self.rho)[None, :]
            cand = perp_in & (dist < lim)
            if self.dashes:
                cand &= self._on_margin(s_foot, self.tau)
            inside = cand.any(axis=1)
            if len(self.SP):
                # wedge between the strips of the two segments that meet at a smooth vertex
                ok_i = self.SI + 1 < len(self.A)
                SI = self.SI[ok_i]
                SP = self.SP[ok_i]
                dv = np.sqrt(((q[:, None, :] - SP[None, :, :]) ** 2).sum(axis=2))
                cv = (dv < inner) & (t_raw[:, SI] >= 1.0) & (t_raw[:, SI + 1] <= 0.0)
                self_SS = self.SS[ok_i]
                if self.dashes:
                    cv &= self._on_margin(np.broadcast_to(self_SS[None, :], dv.shape), self.tau)
                inside |= cv.any(axis=1)
        near = dist <= self.R
        outside = ~near.any(axis=1)
        if self.dashes:
            margin = self.tau + (self.half if self.cap != "butt" else 0.0)
            seg_off = self._range_off(self.s0, self.s1, margin)  # (M,)
            outside |= ~(near & ~seg_off[None, :]).any(axis=1)
        out[outside] = 0
        out[inside & ~outside] = 1
        out[inside & outside] = -1
        # where the stroke is wider than the local radius of curvature the inner offset folds over itself
        # and stroker implementations legitimately differ (Skia cancels the doubly covered fold): everything
        # within reach of such a tight piece is unknown
        tight = self.rho < self.half + self.tau
        if tight.any():
            nt = (near & tight[None, :]).any(axis=1)
            out[nt] = -1
        for dpt in self.dots:
            nd = np.hypot(q[:, 0] - dpt[0], q[:, 1] - dpt[1]) <= self.R
            out[nd & (out == 0)] = -1
        return out

    def root_edges(self):
        """Edges used for sample-point placement and the trust band: centre line and the two
        offset lines at +-half (no joins), mapped to root coordinates."""
        if len(self.A) == 0:
            return np.zeros((0, 2)), np.zeros((0, 2))
        d = self.B - self.A
        ln = np.hypot(d[:, 0], d[:, 1])[:, None]
        n = np.stack([-d[:, 1], d[:, 0]], axis=1) / ln * self.half
        As = np.concatenate([self.A, self.A + n, self.A - n])
        Bs = np.concatenate([self.B, self.B + n, self.B - n])
        return geom.transform_points(As, self.ctm), geom.transform_points(Bs, self.ctm)

    def dist(self, pts_root):
        return np.full(len(pts_root), np.inf)
