"""Adversarial document grammar for C17 (hostile but well-formed XML), its serializer and an
independent reference analysis (reference graph, cycles, expanded size) working on the case itself.

A case is JSON:
    {"xmldecl": bool,
     "doctype": null | {"ext": null | [pubid|null, sysid], "ents": [[name, kind, value], ...]},
     "root": node}
    node = [tag, {attr: raw value}, [child, ...]]      child = node | str (raw character data)
    special tags: "!comment", "?pi" (children[0] = text), "!cdata"
    entity kinds: "int" (value = replacement text), "sys"/"pub" (value = system id of an external
    parsed entity), "pesys" (external parameter entity, declared and referenced in the subset)
Attribute values and character data are written raw, so "&name;" in them is an entity reference.
"@@DIR@@" in any string is replaced by the canary directory at run time.
"""
from __future__ import annotations

import re
from typing import Dict, List, Optional, Tuple

from hypothesis import strategies as st

SVGNS = "http://www.w3.org/2000/svg"
XLINKNS = "http://www.w3.org/1999/xlink"

# ------------------------------------------------------------------ serializer


def _ser(n, out):
    if isinstance(n, str):
        out.append(n)
        return
    tag, attrs, children = n
    if tag == "!comment":
        out.append("<!--" + "".join(children) + "-->")
        return
    if tag == "?pi":
        out.append("<?" + "".join(children) + "?>")
        return
    if tag == "!cdata":
        out.append("<![CDATA[" + "".join(children) + "]]>")
        return
    out.append("<" + tag)
    for k, v in attrs.items():
        out.append(f' {k}="{v}"')
    if children:
        out.append(">")
        for c in children:
            _ser(c, out)
        out.append(f"</{tag}>")
    else:
        out.append("/>")


def render(case) -> str:
    out = []
    if case.get("xmldecl"):
        out.append('<?xml version="1.0" encoding="UTF-8"?>\n')
    dt = case.get("doctype")
    if dt:
        out.append("<!DOCTYPE svg")
        if dt.get("ext"):
            pub, sysid = dt["ext"]
            out.append(f' PUBLIC "{pub}" "{sysid}"' if pub else f' SYSTEM "{sysid}"')
        ents = dt.get("ents") or []
        if ents:
            out.append(" [\n")
            for name, kind, value in ents:
                if kind == "int":
                    out.append(f'  <!ENTITY {name} "{value}">\n')
                elif kind == "sys":
                    out.append(f'  <!ENTITY {name} SYSTEM "{value}">\n')
                elif kind == "pub":
                    out.append(f'  <!ENTITY {name} PUBLIC "-//C17//ENT {name}//EN" "{value}">\n')
                elif kind == "pesys":
                    out.append(f'  <!ENTITY % {name} SYSTEM "{value}">\n  %{name};\n')
            out.append("]")
        out.append(">\n")
    _ser(case["root"], out)
    return "".join(out)


# ------------------------------------------------------------------ value pools

BAD_NUM = ["", " ", "abc", "1e", "1e999", "-1e999", "nan", "inf", "-", ".", "1..2", "--1", "1,2", "5 0%", "1px", "3em",
           "0x10", "1_0", "١٢", "1e-9", "1e9", "-5e3", "1 2", "+", "1e+", "∞", "NaN", "1" * 320]
BAD_TRANSFORM = ["", "matrix(1 2)", "rotate(", "rotate()", "translate(1-2)", "scale(0)", "scale(nan)", "foo(1)", "translate(1,2,3)",
                 "matrix(1,0,0,1,0)", "rotate(1e999)", ")", "translate(1 2) rotate", "scale(1e-320)", "matrix(0 0 0 0 0 0)",
                 "translate(abc)", "skewX(90)", "rotate(30 5)", "translate(1,,2)",
                 # long digit runs ending in something that is not a number (units): a validating regular expression
                 # must not need exponential time to say no; and legal numbers of extreme magnitude
                 "translate(0." + "0" * 33 + "1px)", "rotate(45." + "0" * 30 + "deg)", "translate(" + "1234567890" * 3 + "45px)",
                 "scale(1" + "0" * 40 + "x)", "rotate(1e20)", "rotate(-36000000000000000000 5 5)", "translate(1e300 1e300)", "skewX(1e19)"]
BAD_VIEWBOX = ["", "0 0", "0 0 0 0", "0 0 -1 -1", "a b c d", "0 0 100", "0,0,100,100,5", "nan nan nan nan", "0 0 1e999 1e999",
               "0 0 1e-9 1e-9", "0 0 100 100 ", "0 0 100% 100%", "none", "0 0 inf 5"]
BAD_D = ["", "M", "M0", "M 0 0 L", "Z", "L 1 1", "M0,0 A1 1", "M0,0 L1e999,5 L5,5 Z", "M0 0 X 5 5", "M0,0 L nan 5 Z", "m", "M0,0 C1,1",
         "M0,0 A1 1 0 2 2 5 5", "0 0 L 5 5", "M0,0 L5,5 L", "M0\t0 L5 5", "M0,0 L1.,5 Z", "M.e1 0", "M0,0 a0 0 0 0 0 0 0 z", "M-,- L5,5",
         "M0,0 " + "L1,1 " * 60 + "Q",
         # legal arcs with an x-axis-rotation of extreme magnitude (any loop folding it into one turn must terminate)
         "M10,10 A30,20 1e20 0 1 90,50", "M10,10 A30,20 -1e30 0 1 90,50 Z", "M10,10 a30,20 36000000000000000000 1 0 40,40",
         "M10,10 A30,20 1e12 0 1 90,50", "M0,0 L" + "1" * 40 + "px,5"]
BAD_POINTS = ["", "0", "0,0 5", "a,b", "0,0 nan,5 5,5", "1e999,0 5,5 0,5", "0 0 5 5 0", ",", "0,0,5,5,0,5,", "0;0 5;5"]
BAD_STYLE = ["", ":", ";;;", "fill", "fill:", ":red", "fill:red;fill", "stroke-width:abc", "fill:url(#nope)", "fill:url(", "a:b:c",
             "fill:red;;stroke:", "opacity:nan", "clip-path:url(#nope)", "transform:rotate(", "fill:red !important", "/*x*/fill:red",
             "stroke:blue;stroke-width:1e999", "display:none", "fill: url(#g0)"]
BAD_URL = ["", "url(", "url(#", "url(#)", "url()", "url(#no pe)", "url(nope)", "#g0", "url(#g0", "url(#g0) url(#g1)", "url('#g0')",
           'url(&quot;#g0&quot;)', "url(other.svg#g0)", "url(@@DIR@@/canary.xml#x)", "url(#g0),url(#g1)", "none none", "URL(#g0)", "url( #g0 )"]
BAD_HREF = ["", "#", "nope", "#no#pe", "# u0", "#u0 ", "other.svg#u0", "@@DIR@@/canary.xml", "file://@@DIR@@/canary.xml#x", "canary.xml#" ,
            "data:image/svg+xml,%3Csvg/%3E", "##u0", "#Root", "http://127.0.0.1:9/x.svg#a", "#&amp;", "#u0#u1"]
BAD_MISC = ["", " ", "a b", "-1-", "&amp;", "&lt;", "'", "x" * 300, "é", "no/pe"]

NUM_ATTRS = {"x", "y", "width", "height", "r", "cx", "cy", "rx", "ry", "x1", "y1", "x2", "y2", "fx", "fy", "offset", "stroke-width",
             "opacity", "fill-opacity", "stroke-opacity", "stop-opacity", "stroke-miterlimit", "stroke-dashoffset"}
TRANSFORM_ATTRS = {"transform", "gradientTransform"}
URL_ATTRS = {"fill", "stroke", "clip-path", "mask", "filter"}
HREF_ATTRS = {"xlink:href", "href"}


def bad_pool(attr: str):
    if attr in NUM_ATTRS:
        return BAD_NUM
    if attr in TRANSFORM_ATTRS:
        return BAD_TRANSFORM
    if attr == "viewBox":
        return BAD_VIEWBOX
    if attr == "d":
        return BAD_D
    if attr == "points":
        return BAD_POINTS
    if attr == "style":
        return BAD_STYLE
    if attr in URL_ATTRS:
        return BAD_URL
    if attr in HREF_ATTRS:
        return BAD_HREF
    return BAD_MISC


def bad_kind(attr: str) -> str:
    if attr in NUM_ATTRS:
        return "number"
    if attr in TRANSFORM_ATTRS:
        return "transform"
    if attr in ("viewBox", "d", "points", "style"):
        return attr
    if attr in URL_ATTRS:
        return "url"
    if attr in HREF_ATTRS:
        return "href"
    return "misc"


COLORS = ["red", "#00f", "none", "currentColor", "rgb(1,2,3)", "#abc", "blue"]
TRANSFORMS = ["translate(3,4)", "rotate(30)", "scale(2)", "matrix(1 0 0 1 5 5)", "skewX(20)", "scale(1,-1)", "rotate(45 5 5) translate(2)",
              "matrix(0.5 0.2 -0.2 0.5 1 1)"]
CANARY_XML_IDS = ["file://@@DIR@@/canary.xml", "@@DIR@@/canary.xml", "canary.xml", "file:canary.xml", "./canary.xml"]
CANARY_DTD_IDS = ["file://@@DIR@@/canary.dtd", "@@DIR@@/canary.dtd", "canary.dtd"]
CANARY_TXT_IDS = ["file://@@DIR@@/canary.txt", "canary.txt"]

# ------------------------------------------------------------------ generator


@st.composite
def hostile_doc(draw):
    def pick(seq):
        return draw(st.sampled_from(seq))

    def chance(p):  # shrinks towards False
        return draw(st.integers(0, 99)) >= 100 - p

    def num(lo=0, hi=40):
        return str(draw(st.integers(lo, hi)))

    focus = pick(["use", "use", "clip", "grad", "grad", "mixed", "entity", "entity", "malformed", "malformed", "fanout", "fanout", "plain", "plain", "unsupported"])

    # ---------------- family sizes and wiring plans
    def plan(n, mode):
        """-> (n, t, info): t[i] = target index (or None / 'dangling') of the main reference of item i."""
        info = {"mode": mode}
        if mode == "cycle":
            k = pick([1, 2, 2, 3, 3, 3, 4, 4])
            lead = pick([0, 0, 0, 1, 2])
            n = k + lead + draw(st.integers(0, 1))
            t = [None] * n
            for i in range(lead + k - 1):
                t[i] = i + 1
            t[lead + k - 1] = lead
            for i in range(lead + k, n):
                t[i] = pick([None] + list(range(i + 1, n))) if i + 1 < n else None
            info.update(k=k, lead=lead)
            return n, t, info
        t = [None] * n
        if mode == "dag":
            for i in range(n):
                t[i] = pick([None] + list(range(i + 1, n)) * 2) if i + 1 < n else None
        else:  # random
            for i in range(n):
                t[i] = pick([None, "dangling"] + list(range(n)) * 2)
        return n, t, info

    def mode_for(fam):
        if focus == fam or (focus == "mixed" and chance(50)):
            if fam == "clip":  # clipPath cycles end in RecursionError after ~1 s each: keep their share moderate
                return pick(["cycle", "cycle", "dag", "random"])
            return pick(["cycle", "cycle", "cycle", "cycle", "random"])
        if focus == "fanout":
            return "dag"
        return pick(["dag", "dag", "dag", "dag", "dag", "random"])

    n_u = draw(st.integers(1, 5)) if focus in ("use", "mixed", "fanout") else draw(st.integers(0, 2))
    n_c = draw(st.integers(1, 5)) if focus in ("clip", "mixed") else draw(st.integers(0, 2))
    n_g = draw(st.integers(1, 5)) if focus in ("grad", "mixed") else draw(st.integers(0, 2))
    n_r = draw(st.integers(0, 2))
    n_u, u_plan, u_info = plan(n_u, mode_for("use"))
    n_c, c_plan, c_info = plan(n_c, mode_for("clip"))
    n_g, g_plan, g_info = plan(n_g, mode_for("grad"))
    uids = [f"u{i}" for i in range(n_u)]
    cids = [f"c{i}" for i in range(n_c)]
    gids = [f"g{i}" for i in range(n_g)]
    rids = [f"r{i}" for i in range(n_r)]
    wild = focus == "mixed" or chance(8)  # references across families / wrong types

    def any_id():
        pool = uids + cids + gids + rids + ["nope", "root"]
        return pick(pool)

    # ---------------- leaves
    def shape():
        kind = pick(["rect", "rect", "rectr", "circle", "ellipse", "line", "polygon", "polyline", "path", "path", "pathc", "patha"])
        if kind == "rect":
            n = ["rect", {"x": num(), "y": num(), "width": num(1), "height": num(1)}, []]
        elif kind == "rectr":
            n = ["rect", {"width": num(1), "height": num(1), "rx": num(0, 9), "ry": num(0, 9)}, []]
        elif kind == "circle":
            n = ["circle", {"cx": num(), "cy": num(), "r": num(1, 20)}, []]
        elif kind == "ellipse":
            n = ["ellipse", {"cx": num(), "cy": num(), "rx": num(1, 20), "ry": num(1, 20)}, []]
        elif kind == "line":
            n = ["line", {"x1": num(), "y1": num(), "x2": num(), "y2": num(), "stroke": "blue"}, []]
        elif kind in ("polygon", "polyline"):
            n = [kind, {"points": " ".join(f"{num()},{num()}" for _ in range(draw(st.integers(3, 5))))}, []]
        elif kind == "path":
            n = ["path", {"d": f"M{num()},{num()} L{num()},{num()} L{num()},{num()} Z"}, []]
        elif kind == "pathc":
            n = ["path", {"d": f"M{num()},{num()} C{num()},{num()} {num()},{num()} {num()},{num()} S{num()},{num()} {num()},{num()} z"}, []]
        else:
            n = ["path", {"d": f"M{num()} {num()} A{num(1,20)} {num(1,20)} {num(0,90)} {pick('01')} {pick('01')} {num()} {num()} Q{num()} {num()} {num()} {num()} Z"}, []]
        return n

    def paint(n, allow_clip=True):
        a = n[1]
        if chance(55):
            if gids and chance(60):
                a["fill"] = f"url(#{pick(gids)})"
            elif chance(12):
                a["fill"] = f"url(#{any_id()})"
            else:
                a["fill"] = pick(COLORS)
        if chance(25):
            a["stroke"] = pick(COLORS + ([f"url(#{pick(gids)})"] if gids else []))
            if chance(60):
                a["stroke-width"] = pick(["1", "2", "0.5", "3"])
            if chance(15):
                a["stroke-dasharray"] = pick(["2", "3 1", "2,2", "none", "abc", "0", "1 0"])
            if chance(15):
                a["stroke-linejoin"] = pick(["round", "bevel", "miter", "arcs"])
        if chance(30):
            a["transform"] = pick(TRANSFORMS)
        if allow_clip and cids and chance(35):
            a["clip-path"] = f"url(#{pick(cids)})"
        elif allow_clip and chance(4):
            a["clip-path"] = f"url(#{any_id()})"
        if chance(8):
            a["opacity"] = pick(["0.5", "0", "1", "0.25"])
        if chance(6):
            a["fill-rule"] = pick(["evenodd", "nonzero"])
        if chance(4):
            a["display"] = "none"
        if chance(6):
            a["style"] = pick(["fill:red", "stroke:blue;stroke-width:2", "fill:none;stroke:red", "opacity:0.5", "fill:url(#g0)"])
        return n

    def use(target, hostile=True):
        a = {}
        href = "xlink:href"
        if hostile and chance(1):
            href = "href"
        a[href] = "#" + target
        if chance(30):
            a["x"] = num()
            a["y"] = num()
        if chance(20):
            a["transform"] = pick(TRANSFORMS)
        if chance(10):
            a["fill"] = pick(COLORS)
        if chance(6):
            a["width"] = num(1)
            a["height"] = num(1)
        if cids and chance(8):
            a["clip-path"] = f"url(#{pick(cids)})"
        return ["use", a, []]

    leaves = {}
    for rid in rids:
        s = paint(shape(), allow_clip=chance(40))
        s[1]["id"] = rid
        leaves[rid] = s

    # ---------------- use family
    def tgt_name(ids, t):
        if t is None:
            return None
        if t == "dangling":
            return "nope"
        return ids[t]

    containers = {}
    for i in range(n_u - 1, -1, -1):
        uid = uids[i]
        main = tgt_name(uids, u_plan[i])
        ckind = pick(["g"] * 7 + ["symbol", "use", "svg"])
        if ckind == "use" and main is not None:
            el = use(main, hostile=False)
            el[1]["id"] = uid
            containers[uid] = el
            continue
        if ckind == "use":
            ckind = "g"
        kids = []
        for _ in range(draw(st.integers(0, 2))):
            kids.append(paint(shape()))
        if main is not None:
            kids.insert(draw(st.integers(0, len(kids))), use(main))
        # fan-out: extra edges that keep the plan's (a)cyclicity unless the mode is random
        for _ in range(draw(st.integers(0, 3 if focus == "fanout" else 1))):
            if u_info["mode"] == "random":
                kids.append(use(any_id() if wild else pick(uids + rids + ["nope"])))
            else:
                later = [uids[j] for j in range(i + 1, n_u) if not (u_info["mode"] == "cycle" and j < u_info["lead"] + u_info["k"])]
                pool = later * 2 + rids
                if pool:
                    # before or after the use that carries the plan's edge: a harmless sibling examined first must not
                    # make the container look "done"
                    kids.insert(draw(st.integers(0, len(kids))), use(pick(pool)))
        a = {"id": uid}
        if ckind == "svg":
            a.update({"x": num(), "y": num(), "width": num(1), "height": num(1)})
            if chance(50):
                a["viewBox"] = f"0 0 {num(1)} {num(1)}"
        el = [ckind, a, kids]
        if ckind == "g":
            if chance(25):
                a["transform"] = pick(TRANSFORMS)
            if cids and chance(12):
                a["clip-path"] = f"url(#{pick(cids)})"
            if chance(15):
                a["fill"] = pick(COLORS)
        containers[uid] = el

    # ---------------- clip family
    clips = {}
    for i in range(n_c):
        cid = cids[i]
        kids = []
        for _ in range(pick([1, 1, 1, 1, 2, 2, 0])):
            s = shape()
            if chance(20):
                s[1]["transform"] = pick(TRANSFORMS)
            if chance(12):
                s[1]["clip-path"] = f"url(#{pick(cids)})"  # clip-path on a clipPath child
            if chance(10):
                s[1]["clip-rule"] = pick(["evenodd", "nonzero"])
            kids.append(s)
        if chance(30):
            pool = rids * 2 + uids + (["nope"] if chance(20) else [])
            if wild:
                pool = pool + cids + gids
            if pool:
                kids.append(use(pick(pool)))
        if wild and chance(15):
            kids.append(["g", {}, [shape()]])
        if wild and chance(8):
            kids.append(["text", {}, ["t"]])
        a = {"id": cid}
        t = tgt_name(cids, c_plan[i])
        if t is not None:
            a["clip-path"] = f"url(#{t})"
        if chance(15):
            a["clipPathUnits"] = pick(["userSpaceOnUse", "objectBoundingBox", "bogus"])
        if chance(15):
            a["transform"] = pick(TRANSFORMS)
        clips[cid] = ["clipPath", a, kids]

    # ---------------- gradient family
    grads = {}
    for i in range(n_g):
        gid = gids[i]
        kind = pick(["linearGradient", "linearGradient", "radialGradient"])
        a = {"id": gid}
        if kind == "linearGradient":
            for k in ("x1", "y1", "x2", "y2"):
                if chance(45):
                    a[k] = pick(["0", "1", "0.5", "10", "50%", "100%", "-3"])
        else:
            for k in ("cx", "cy", "r", "fx", "fy"):
                if chance(45):
                    a[k] = pick(["0", "1", "0.5", "10", "50%", "100%", "-3"])
        if chance(35):
            a["gradientUnits"] = pick(["userSpaceOnUse", "objectBoundingBox", "bogus"])
        if chance(30):
            a["gradientTransform"] = pick(TRANSFORMS)
        if chance(12):
            a["spreadMethod"] = pick(["pad", "reflect", "repeat", "bogus"])
        t = tgt_name(gids, g_plan[i])
        if t is not None:
            a["xlink:href" if not chance(3) else "href"] = "#" + t
        elif wild and chance(20):
            a["xlink:href"] = "#" + any_id()
        kids = []
        if chance(55):
            for j in range(draw(st.integers(1, 3))):
                sa = {"offset": pick(["0", "0.5", "1", "50%", "100%", "2", "-1"])}
                if chance(80):
                    sa["stop-color"] = pick(COLORS[:2] + ["#abc", "blue"])
                if chance(20):
                    sa["stop-opacity"] = pick(["0.5", "1", "0"])
                if chance(10):
                    sa["style"] = "stop-color:red;stop-opacity:0.5"
                if chance(8):
                    sa["id"] = f"s{i}{j}"
                kids.append(["stop", sa, []])
        grads[gid] = [kind, a, kids]

    # ---------------- placement
    defs_kids, body = [], []
    nest_ring = u_info["mode"] == "cycle" and chance(40)
    nested_into = set()
    if nest_ring:
        # ring containers nested inside each other: the closing use points at an ancestor
        lo, hi = u_info["lead"], u_info["lead"] + u_info["k"]
        for j in range(hi - 1, lo, -1):
            parent = containers[uids[j - 1]]
            child = containers[uids[j]]
            if parent[0] == "use":
                continue
            # replace the use that points at the child by the child itself, keep everything else
            repl = False
            for idx, kid in enumerate(parent[2]):
                if not isinstance(kid, str) and kid[0] == "use" and (kid[1].get("xlink:href") or kid[1].get("href")) == "#" + uids[j]:
                    parent[2][idx] = child
                    repl = True
                    break
            if not repl:
                parent[2].append(child)
            nested_into.add(uids[j])
    for uid in uids:
        if uid in nested_into:
            continue
        (defs_kids if chance(55) else body).append(containers[uid])
    for rid in rids:
        (defs_kids if chance(60) else body).append(leaves[rid])
    for cid in cids:
        (defs_kids if chance(85) else body).append(clips[cid])
    for gid in gids:
        (defs_kids if chance(85) else body).append(grads[gid])

    # entry points
    n_body = draw(st.integers(1, 4))
    for _ in range(n_body):
        k = pick(["shape", "shape", "shape", "use", "group", "use"])
        if k == "shape":
            body.append(paint(shape()))
        elif k == "use":
            pool = uids[:1] * 3 + uids + rids + (["nope"] if chance(15) else [])
            if wild:
                pool = pool + cids + gids + ["root"]
            body.append(use(pick(pool)) if pool else paint(shape()))
        else:
            g = ["g", {}, [paint(shape()) for _ in range(draw(st.integers(0, 2)))]]
            if uids and chance(50):
                g[2].append(use(pick(uids)))
            paint(g)
            g[1].pop("d", None)
            body.append(g)
    if cids and not any(isinstance(b, list) and "clip-path" in b[1] for b in body):
        s = paint(shape())
        s[1]["clip-path"] = f"url(#{cids[0]})"
        body.append(s)
    if gids and focus in ("grad", "mixed"):
        s = shape()
        s[1]["fill"] = f"url(#{gids[0]})"
        if chance(50):
            s[1]["transform"] = pick(TRANSFORMS)
        body.append(s)

    # unsupported / ignorable content
    if focus == "unsupported" or chance(6):
        for _ in range(draw(st.integers(1, 3))):
            k = pick(["text", "image", "style", "script", "filter", "mask", "pattern", "marker", "foreign", "title", "a", "switch", "anon-symbol", "in-kept-group", "in-kept-group",
                      "pi", "comment", "cdata", "xinclude", "foreign-ns", "stylesheet-pi", "tspan", "desc"])
            if k == "in-kept-group":
                # an unsupported element inside a translucent group with several children (such a group is kept)
                bad = pick([["image", {"xlink:href": "data:image/png;base64,AAAA", "width": "5", "height": "5"}, []], ["text", {"x": "1", "y": "5"}, ["t"]], ["mask", {"id": "mk9"}, [shape()]], ["foreignObject", {"width": "3", "height": "3"}, []]])
                kids = [paint(shape()), paint(shape()), bad]
                g = ["g", {"opacity": pick(["0.5", "0.25"])}, kids if chance(50) else [kids[2], kids[0], kids[1]]]
                body.append(g if chance(60) else ["g", {"opacity": "0.8"}, [g, paint(shape())]])
            elif k == "text":
                body.append(["text", {"x": num(), "y": num()}, ["hello ", ["tspan", {"dx": "2"}, ["world"]]]])
            elif k == "tspan":
                body.append(["tspan", {}, ["x"]])
            elif k == "image":
                body.append(["image", {"xlink:href": pick(CANARY_TXT_IDS + CANARY_XML_IDS + ["data:image/png;base64,AAAA"]), "width": "5", "height": "5"}, []])
            elif k == "style":
                body.append(["style", {"type": "text/css"}, [pick(["path{fill:red}", "@import url(canary.txt);", "!cdata-css"])]])
            elif k == "script":
                body.append(["script", {"xlink:href": pick(CANARY_TXT_IDS)}, ["alert(1)"]])
            elif k == "filter":
                defs_kids.append(["filter", {"id": "f0"}, [["feGaussianBlur", {"stdDeviation": "2"}, []]]])
                s = paint(shape())
                s[1]["filter"] = "url(#f0)"
                body.append(s)
            elif k == "mask":
                defs_kids.append(["mask", {"id": "m0"}, [shape()]])
                s = paint(shape())
                s[1]["mask"] = "url(#m0)"
                body.append(s)
            elif k == "pattern":
                defs_kids.append(["pattern", {"id": "p0", "width": "4", "height": "4", "xlink:href": "#p0"}, [shape()]])
                s = shape()
                s[1]["fill"] = "url(#p0)"
                body.append(s)
            elif k == "marker":
                defs_kids.append(["marker", {"id": "mk0"}, [shape()]])
                s = shape()
                s[1]["marker-end"] = "url(#mk0)"
                body.append(s)
            elif k == "foreign":
                body.append(["foreignObject", {"width": "9", "height": "9"}, [["div", {"xmlns": "http://www.w3.org/1999/xhtml"}, ["hi"]]]])
            elif k == "title":
                body.insert(0, ["title", {}, ["t"]])
            elif k == "desc":
                body.insert(0, ["metadata", {}, [["desc", {}, ["d"]]]])
            elif k == "a":
                body.append(["a", {"xlink:href": "http://127.0.0.1:9/"}, [paint(shape())]])
            elif k == "switch":
                body.append(["switch", {}, [paint(shape())]])
            elif k == "anon-symbol":
                body.append(["symbol", {}, [shape()]])
            elif k == "pi":
                body.append(["?pi", {}, ["c17 some data"]])
            elif k == "stylesheet-pi":
                body.append(["?pi", {}, ['xml-stylesheet type="text/css" href="canary.txt"']])
            elif k == "comment":
                body.append(["!comment", {}, [" a comment "]])
            elif k == "cdata":
                body.append(["g", {}, [["!cdata", {}, ["<not> &markup;"]], paint(shape())]])
            elif k == "xinclude":
                body.append(["xi:include", {"xmlns:xi": "http://www.w3.org/2001/XInclude", "href": pick(CANARY_TXT_IDS + CANARY_XML_IDS), "parse": pick(["text", "xml"])}, []])
            elif k == "foreign-ns":
                body.append(["foo:bar", {"xmlns:foo": "http://example.com/foo", "foo:baz": "1"}, [shape()]])

    # ---------------- root
    ra = {}
    nsmode = pick(["std"] * 16 + ["no-xlink-decl", "no-xlink-decl", "no-svg-ns", "prefixed", "extra-ns"])
    root_tag = "svg"
    if nsmode in ("std", "extra-ns", "no-xlink-decl"):
        ra["xmlns"] = SVGNS
    if nsmode in ("std", "extra-ns", "no-svg-ns"):
        ra["xmlns:xlink"] = XLINKNS
    if nsmode == "extra-ns":
        ra["xmlns:inkscape"] = "http://www.inkscape.org/namespaces/inkscape"
        ra["inkscape:version"] = "1.0"
    vb = pick(["vb"] * 12 + ["wh", "none", "both"])
    if vb in ("vb", "both"):
        ra["viewBox"] = pick(["0 0 100 100", "0 0 128 128", "-10 -10 50 80", "0,0,24,24"])
    if vb in ("wh", "both"):
        ra["width"] = pick(["100", "64", "100px", "50%"])
        ra["height"] = pick(["100", "64", "100px", "50%"])
    if chance(25):
        ra["id"] = "root"
    if chance(8):
        ra["fill"] = pick(COLORS)
    if chance(4):
        ra["transform"] = pick(TRANSFORMS)
    kids = []
    if defs_kids:
        where = pick(["first", "first", "first", "last", "split", "nodefs"])
        if where == "first":
            kids = [["defs", {}, defs_kids]] + body
        elif where == "last":
            kids = body + [["defs", {}, defs_kids]]
        elif where == "split":
            h = len(defs_kids) // 2
            kids = [["defs", {}, defs_kids[:h]]] + body + [["defs", {}, defs_kids[h:]]]
        else:
            kids = defs_kids + body
    else:
        kids = body
    root = [root_tag, ra, kids]
    if nsmode == "prefixed":
        ra["xmlns:s"] = SVGNS
        ra["xmlns:xlink"] = XLINKNS

        def pref(n):
            if isinstance(n, str) or n[0][0] in "!?" or ":" in n[0]:
                return
            n[0] = "s:" + n[0]
            for c in n[2]:
                pref(c)

        pref(root)

    # ---------------- malformed values
    def all_nodes(n, acc):
        if isinstance(n, str) or n[0][0] in "!?":
            return acc
        acc.append(n)
        for c in n[2]:
            all_nodes(c, acc)
        return acc

    nodes = all_nodes(root, [])
    if focus == "malformed" or chance(15):
        for _ in range(draw(st.integers(1, 3))):
            n = nodes[draw(st.integers(0, len(nodes) - 1))]
            keys = [k for k in n[1] if not k.startswith("xmlns")]
            extra = pick(["style", "transform", "viewBox", "fill", "clip-path", "opacity", None, None])
            if keys and (extra is None or chance(70)):
                k = pick(keys)
            elif extra is not None:
                k = extra
            else:
                continue
            n[1][k] = pick(bad_pool(k))

    # ---------------- DOCTYPE / entities
    case = {"xmldecl": chance(20), "doctype": None, "root": root}
    if focus == "entity" or chance(12):
        ents = []
        ext = None
        if chance(22):
            ext = [pick([None, "-//W3C//DTD SVG 1.1//EN"]), pick(CANARY_DTD_IDS + ["http://www.w3.org/Graphics/SVG/1.1/DTD/svg11.dtd"])]
        n_ent = draw(st.integers(0 if ext else 1, 3))
        content_slots = [n for n in nodes if n[0].split(":")[-1] in ("svg", "g", "defs", "text", "clipPath", "linearGradient", "radialGradient", "path", "rect", "symbol", "switch", "a")]
        for e in range(n_ent):
            kind = pick(["int-attr", "int-attr", "int-attr-nested", "int-attr-nested", "int-text", "int-markup", "ext", "ext", "ext", "pub", "pe", "laughs", "laughs", "loop", "ext-attr", "undeclared"])
            name = f"e{e}"
            if kind in ("int-attr", "int-attr-nested"):
                n = nodes[draw(st.integers(0, len(nodes) - 1))]
                keys = [k for k in n[1] if not k.startswith("xmlns")]
                if not keys:
                    continue
                k = pick(keys)
                val = n[1][k]
                if '"' in val or "&" in val or "%" in val:
                    continue
                if kind == "int-attr":
                    ents.append([name, "int", val])
                    n[1][k] = f"&{name};"
                else:
                    cut = draw(st.integers(0, len(val)))
                    ents.append([name + "a", "int", val[:cut]])
                    ents.append([name, "int", f"&{name}a;" + val[cut:]])
                    n[1][k] = f"&{name};"
            elif kind == "int-text":
                ents.append([name, "int", pick(["hello", " ", "&lt;tag&gt;", "&#65;", ""])])
                if content_slots:
                    n = content_slots[draw(st.integers(0, len(content_slots) - 1))]
                    n[2].insert(draw(st.integers(0, len(n[2]))), f"&{name};")
            elif kind == "int-markup":
                ents.append([name, "int", pick(["<rect width='5' height='5'/>", "<use xlink:href='#u0'/>", "<g><path d='M0,0 L5,5 L0,5 Z'/></g>",
                                                 "<clipPath id='c0'/>", "text<g/>text"])])
                if content_slots:
                    n = content_slots[draw(st.integers(0, len(content_slots) - 1))]
                    n[2].insert(draw(st.integers(0, len(n[2]))), f"&{name};")
            elif kind in ("ext", "pub"):
                ents.append([name, "sys" if kind == "ext" else "pub", pick(CANARY_XML_IDS + CANARY_TXT_IDS)])
                if content_slots:
                    n = content_slots[draw(st.integers(0, len(content_slots) - 1))]
                    n[2].insert(draw(st.integers(0, len(n[2]))), f"&{name};")
            elif kind == "ext-attr":
                ents.append([name, "sys", pick(CANARY_TXT_IDS)])
                n = nodes[draw(st.integers(0, len(nodes) - 1))]
                n[1]["data-x"] = f"&{name};"
            elif kind == "pe":
                ents.append([name, "pesys", pick(CANARY_DTD_IDS)])
                if chance(60) and content_slots:
                    n = content_slots[draw(st.integers(0, len(content_slots) - 1))]
                    n[2].insert(draw(st.integers(0, len(n[2]))), "&fromdtd;")
                elif chance(50):
                    n = nodes[draw(st.integers(0, len(nodes) - 1))]
                    n[1]["data-y"] = "&fromdtd;"
            elif kind == "laughs":
                depth = pick([3, 3, 6, 9])
                ents.append([f"{name}l0", "int", "ha"])
                for lv in range(1, depth + 1):
                    ents.append([f"{name}l{lv}", "int", f"&{name}l{lv-1};" * 10])
                if chance(50) or not content_slots:
                    n = nodes[draw(st.integers(0, len(nodes) - 1))]
                    n[1][pick(["id", "data-l", "fill", "class"])] = f"&{name}l{depth};"
                else:
                    n = content_slots[draw(st.integers(0, len(content_slots) - 1))]
                    n[2].insert(draw(st.integers(0, len(n[2]))), f"&{name}l{depth};")
            elif kind == "loop":
                ents.append([name, "int", f"&{name}b;"])
                ents.append([name + "b", "int", f"x&{name};"])
                n = nodes[draw(st.integers(0, len(nodes) - 1))]
                if chance(50) or not content_slots:
                    n[1]["data-loop"] = f"&{name};"
                else:
                    n = content_slots[draw(st.integers(0, len(content_slots) - 1))]
                    n[2].append(f"&{name};")
            elif kind == "undeclared":
                if content_slots:
                    n = content_slots[draw(st.integers(0, len(content_slots) - 1))]
                    n[2].append("&nosuch;")
        if ents or ext:
            case["doctype"] = {"ext": ext, "ents": ents}
    return case


# ------------------------------------------------------------------ reference analysis (independent of picosvg)

_ENT = re.compile(r"&([A-Za-z_][\w.-]*);")
_URL = re.compile(r"url\(\s*['\"]?#([^)'\"\s]+)['\"]?\s*\)")
_PREDEF = {"amp": "&", "lt": "<", "gt": ">", "quot": '"', "apos": "'"}


class Analysis:
    def __init__(self):
        self.classes: List[str] = []
        self.cycles: Dict[str, int] = {}  # family -> shortest cycle length found
        self.E = 0  # expanded size with back edges cut
        self.has_entity_ref = False
        self.malformed: List[str] = []
        self.dangling: List[str] = []


def _local(tag: str) -> str:
    return tag.split(":")[-1]


def analyse(case) -> Analysis:
    A = Analysis()
    dt = case.get("doctype") or {}
    ents = {name: (kind, value) for name, kind, value in (dt.get("ents") or [])}

    def expand(s: str, depth=0) -> str:
        if "&" not in s or depth > 6 or len(s) > 4000:
            return s

        def rep(m):
            nm = m.group(1)
            if nm in _PREDEF:
                return _PREDEF[nm]
            if nm in ents and ents[nm][0] == "int":
                return expand(ents[nm][1], depth + 1)
            return ""

        return _ENT.sub(rep, s)

    nodes = []  # (node, parent index)
    by_id: Dict[str, int] = {}

    def walk(n, parent):
        if isinstance(n, str):
            for m in _ENT.finditer(n):
                if m.group(1) not in _PREDEF:
                    A.has_entity_ref = True
                    kind = ents.get(m.group(1), ("undeclared", ""))[0]
                    A.classes.append({"int": "entity:internal-in-content", "sys": "entity:external-in-content", "pub": "entity:external-in-content"}.get(kind, "entity:undeclared-in-content"))
            return
        if n[0][0] in "!?":
            return
        idx = len(nodes)
        nodes.append((n, parent))
        for k, v in n[1].items():
            for m in _ENT.finditer(v):
                if m.group(1) not in _PREDEF:
                    A.has_entity_ref = True
                    kind, val = ents.get(m.group(1), ("undeclared", ""))
                    if kind == "int":
                        A.classes.append("entity:nested-internal-in-attr" if "&" in val.replace("&amp;", "").replace("&lt;", "").replace("&gt;", "").replace("&#", "") else "entity:internal-in-attr")
                    elif kind in ("sys", "pub"):
                        A.classes.append("entity:external-in-attr")
                    else:
                        A.classes.append("entity:undeclared-in-attr")
            if not k.startswith("xmlns") and v in bad_pool(k):
                A.malformed.append(bad_kind(k))
        nid = n[1].get("id")
        if nid is not None:
            by_id[expand(nid)] = idx
        for c in n[2]:
            walk(c, idx)

    walk(case["root"], -1)

    def attr(n, *names):
        for nm in names:
            if nm in n[1]:
                return expand(n[1][nm])
        return None

    def href_target(n) -> Optional[str]:
        h = attr(n, "xlink:href", "href")
        if h is None:
            return None
        h = h.strip() if _local(n[0]) != "use" else h
        if not h.startswith("#"):
            return None
        return h[1:].strip() if _local(n[0]) != "use" else h[1:]

    def url_target(v: Optional[str]) -> Optional[str]:
        if not v:
            return None
        m = _URL.search(v)
        return m.group(1) if m else None

    children_idx: Dict[int, List[int]] = {i: [] for i in range(len(nodes))}
    for i, (n, p) in enumerate(nodes):
        if p >= 0:
            children_idx[p].append(i)

    def subtree(i):
        out, st_ = [], [i]
        while st_:
            j = st_.pop()
            out.append(j)
            st_.extend(children_idx[j])
        return out

    use_t: Dict[int, Optional[int]] = {}
    clip_t: Dict[int, Optional[int]] = {}
    grad_t: Dict[int, Optional[int]] = {}
    fill_t: Dict[int, Optional[int]] = {}
    for i, (n, p) in enumerate(nodes):
        tag = _local(n[0])
        if tag == "use":
            t = href_target(n)
            if t is None:
                A.dangling.append("use:bad-href")
            elif t not in by_id:
                A.dangling.append("use:dangling")
            else:
                use_t[i] = by_id[t]
        if tag in ("linearGradient", "radialGradient") and attr(n, "xlink:href", "href") is not None:
            t = href_target(n)
            if t is None or t not in by_id:
                A.dangling.append("gradient-href:dangling")
            else:
                grad_t[i] = by_id[t]
                if _local(nodes[by_id[t]][0][0]) not in ("linearGradient", "radialGradient"):
                    A.classes.append("wrong-type:gradient-href")
        cp = attr(n, "clip-path")
        if cp and cp != "none":
            t = url_target(cp)
            if t is None or t not in by_id:
                A.dangling.append("clip-path:dangling")
            else:
                clip_t[i] = by_id[t]
                if _local(nodes[by_id[t]][0][0]) != "clipPath":
                    A.classes.append("wrong-type:clip-path")
        for pa in ("fill", "stroke"):
            v = attr(n, pa)
            if v and "url(" in v:
                t = url_target(v)
                if t is None or t not in by_id:
                    A.dangling.append("paint:dangling")
                else:
                    fill_t[i] = by_id[t]
                    if _local(nodes[by_id[t]][0][0]) not in ("linearGradient", "radialGradient"):
                        A.classes.append("wrong-type:paint")

    def shortest_cycle(succ: Dict[int, List[int]]) -> int:
        best = 0
        for s in succ:
            # BFS back to s
            dist = {s: 0}
            q = [s]
            found = 0
            while q and not found:
                x = q.pop(0)
                for y in succ.get(x, []):
                    if y == s:
                        found = dist[x] + 1
                        break
                    if y not in dist:
                        dist[y] = dist[x] + 1
                        q.append(y)
            if found and (best == 0 or found < best):
                best = found
        return best

    # use graph over elements: X -> target of every use in subtree(X)
    sub_cache = {i: subtree(i) for i in range(len(nodes))}
    use_succ = {}
    for i in range(len(nodes)):
        ts = [use_t[j] for j in sub_cache[i] if j in use_t]
        if ts:
            use_succ[i] = ts
    k = shortest_cycle(use_succ)
    if k:
        A.cycles["use"] = k
    for j, t in use_t.items():
        # ancestor-or-self target
        x = j
        while x >= 0:
            if x == t:
                A.classes.append("cycle:use-via-ancestor" if x != j else "cycle:use-self")
                break
            x = nodes[x][1]
    clip_succ = {i: [t] for i, t in clip_t.items() if _local(nodes[i][0][0]) == "clipPath"}
    k = shortest_cycle(clip_succ)
    if k:
        A.cycles["clip"] = k
    grad_succ = {i: [t] for i, t in grad_t.items()}
    k = shortest_cycle(grad_succ)
    if k:
        A.cycles["grad"] = k
    if not A.cycles:
        comb = {}
        for i in range(len(nodes)):
            ts = []
            for j in sub_cache[i]:
                for d in (use_t, clip_t, grad_t, fill_t):
                    if j in d:
                        ts.append(d[j])
            if ts:
                comb[i] = ts
        k = shortest_cycle(comb)
        if k:
            A.cycles["mixed"] = k
    for i, (n, p) in enumerate(nodes):
        if _local(n[0]) == "use" and p >= 0:
            x = p
            while x >= 0:
                if _local(nodes[x][0][0]) == "clipPath":
                    A.classes.append("use-inside-clipPath")
                    break
                x = nodes[x][1]

    # expanded size, back edges cut, capped
    CAP = 100000
    memo: Dict[int, int] = {}

    def size(i, stack) -> int:
        if i in memo:
            return memo[i]
        if i in stack:
            return 1
        stack = stack | {i}
        total = 1
        clean = True
        for c in children_idx[i]:
            total += size(c, stack)
        for d in (use_t, clip_t):
            if i in d:
                if d[i] in stack:
                    clean = False
                total += size(d[i], stack)
        total = min(total, CAP)
        if clean and len(stack) == 1:
            memo[i] = total
        return total

    try:
        A.E = size(0, frozenset()) if nodes else 0
    except RecursionError:
        A.E = CAP

    # doctype classes
    if dt:
        if dt.get("ext"):
            A.classes.append("doctype:external-subset")
        for name, (kind, value) in ents.items():
            if kind == "pesys":
                A.classes.append("entity:external-parameter")
            m = re.fullmatch(r"(e\d+)l(\d+)", name)
            if m and f"{m.group(1)}l{int(m.group(2)) + 1}" not in ents:
                A.classes.append("entity:laughs>=1e6" if int(m.group(2)) >= 6 else "entity:laughs-1e3")
        if any(k == "int" and f"&{nm}b;" == v for nm, (k, v) in ents.items()):
            A.classes.append("entity:declaration-loop")
    return A
