"""C18 - pruning of invisible content is conservative."""
from __future__ import annotations

import dataclasses
import math
import xml.etree.ElementTree as ET

import numpy as np

from vlib.run import Result, Sub
from vlib.refsvg import geom, render, stroke3
from vlib.refsvg.pathgrammar import parse as parse_path, PathSyntaxError
from vlib.props import rendercmp
from vlib import c18_gen

from picosvg.svg import SVG
from picosvg import svg_types

ID = "C18"
RULE = (
    "Three Hypothesis-driven subchecks. Geometry is assembled from 27 labelled piece classes in a frame of size "
    "E in {1,16,128,1024} (optionally offset from the origin): ordinary polygons/open polylines/curves, exactly collinear "
    "polygons (grid = dyadic coordinates), horizontal/vertical runs spelt with L or H/V, single segments, move-only, 'M z', "
    "zero-length segments, the same contour twice (same direction / other start vertex / reversed), a contour retraced "
    "twice in one subpath, z-then-draw subpaths, slivers of height 1e-2..1e-8 E, tiny squares/triangles of size "
    "2^-7..2^-22 E, symmetric and asymmetric bow-ties, figure-eights of cubics/quads, near-collinear decimal points, "
    "paths on which skia-pathops raises PathOpsError; and basic shapes with zero/tiny/normal sizes (rect, circle, ellipse, "
    "line zero/h/v/tiny, polygon/polyline with 0,1,2 points, collinear, bow-tie, retraced). Paint: any subset of fill "
    "(colours/none), stroke (colours/none), stroke-width (0, 0.0, >0), opacity/fill-opacity/stroke-opacity (0, 0.0, >0), "
    "display (none/inline), fill-rule, each via attribute, style, or both with different values (style wins). "
    "shape: build the picosvg dataclass and call might_paint(); own evaluator (own path interpreter, flattening, winding "
    "numbers) searches a witness point inside the fill region under the effective fill rule (32x32 lattice, triangle "
    "centroids of the control polygon, multi-scale edge-normal offsets) that lies >= 1e-6 x extent (+ flattening slack for "
    "curves) from every edge, and looks for a drawn segment of non-zero length; might_paint()==False is a violation when "
    "(visible fill and witness) or (visible stroke and drawn segment). The converse is allowed. "
    "subpaths: SVGPath(d, paint).remove_empty_subpaths() must keep the fill region (winding, effective rule, when the fill "
    "is visible) and the three-valued stroke region (when the stroke is visible) at lattice, centre-line and edge-offset "
    "points. doc: small documents of 1-4 such shapes, optionally inside a group carrying inheritable paint, "
    "optionally with a twin (the same geometry text once more with fresh paint or one hiding property on top, before or after the original), rendered by vlib.refsvg.render before and after SVG.remove_unpainted_shapes() / remove_empty_subpaths() / both (paint stack and "
    "colour at mutually trusted points). Non-trivial: shape = the oracle claims 'paints' AND at least one naive criterion "
    "says empty (zero signed area, zero-width/height bbox, other fill rule empty, area < 1e-6 E^2, zero-area geometry with "
    "visible stroke, deciding property borne by style); subpaths = >=2 subpaths of which one has no area of its own and "
    "the path paints; doc = something is painted and at least one shape or subpath is unpainted by the own evaluator. "
    "Distinct = distinct case. Known finding ENGINE-TINY-CONTOUR (skia-pathops simplify loses contours of area < 2^-12 "
    "square user units) is neutralised: a case whose whole painted region / whose every changed point lies inside contours "
    "that on their own enclose < 2^-11 is counted as excluded unless case['pinned']; documents use frames >= 16 so that "
    "such contours are below the render oracle's resolution."
)
ASSUMPTIONS = [
    "vlib/refsvg geometry (interpreter, flattening, winding; self-tested) and stroke3 (three-valued stroke membership)",
    "a witness closer than 1e-6 x max(|coordinate|, bbox size) to an edge is not claimed as painted (binary32 resolution of the engine is ~1e-7 relative)",
    "zero-length subpaths (dots of round/square caps) and zero-size basic shapes are never claimed to paint; dashes are not used in the shape subcheck",
    "groups carry inheritable paint through attributes only (picosvg copies an inherited style attribute wholesale and a child's own style attribute replaces it; cascade matter of C05)",
    "fences: use/clip/gradients/nested svg are not generated (property quantifies over shapes and paths x paint); percentages, units, negative stroke-width, opacity outside [0,1], odd point lists",
]

MARGIN_REL = 1e-6
DEFAULTS = {
    "fill": "black", "stroke": "none", "stroke-width": "1", "opacity": "1", "fill-opacity": "1", "stroke-opacity": "1",
    "display": "inline", "fill-rule": "nonzero", "stroke-linecap": "butt", "stroke-linejoin": "miter", "stroke-miterlimit": "4",
    "stroke-dasharray": "none", "stroke-dashoffset": "0",
}
_CLS = {"path": svg_types.SVGPath, "rect": svg_types.SVGRect, "circle": svg_types.SVGCircle, "ellipse": svg_types.SVGEllipse,
        "line": svg_types.SVGLine, "polygon": svg_types.SVGPolygon, "polyline": svg_types.SVGPolyline}


def eff(a, s, prop):
    if prop in s:
        return s[prop]
    if prop in a:
        return a[prop]
    return DEFAULTS[prop]


def paint_model(a, s):
    """-> dict(fill_visible, stroke_visible, rule, ...) from the effective (style > attribute > default) values."""
    disp = eff(a, s, "display") != "none"
    op = float(eff(a, s, "opacity"))
    fv = disp and eff(a, s, "fill") != "none" and op * float(eff(a, s, "fill-opacity")) > 0
    sw = float(eff(a, s, "stroke-width"))
    sv = disp and eff(a, s, "stroke") != "none" and sw > 0 and op * float(eff(a, s, "stroke-opacity")) > 0
    return {"fill": fv, "stroke": sv, "rule": eff(a, s, "fill-rule"), "sw": sw, "display": disp,
            "stroke_paint": eff(a, s, "stroke") != "none", "fill_paint": eff(a, s, "fill") != "none"}


def build_shape(kind, g, a, s):
    """picosvg dataclass from string attributes (typed through the dataclass' own field types)."""
    cls = _CLS[kind]
    ftypes = {f.name: f.type for f in dataclasses.fields(cls)}
    kw = {}
    for k, v in list(g.items()) + list(a.items()):
        fn = k.replace("-", "_")
        t = ftypes[fn]
        kw[fn] = t(v) if t in (float, int, str) else v
    if s:
        kw["style"] = ";".join(f"{k}:{v}" for k, v in s.items())
    return cls(**kw)


def own_subpaths(kind, g):
    """Own reading of the geometry -> list of subpaths (geom.interpret format); [] when nothing is rendered."""
    el = ET.Element(render.SVG + kind, dict(g))
    sp = render._Builder.shape_subpaths(None, el)
    if sp is None:
        return [], False
    return sp[0], sp[1]


class Geo:
    """Flattened own geometry with the numbers the oracle needs."""

    def __init__(self, subs):
        self.subs = subs
        allp = []
        for s in subs:
            allp.append(s["start"])
            for seg in s["segs"]:
                allp.extend(seg[1:2])
                allp.append(seg[-1])
                if seg[0] in "QC":
                    allp.extend(seg[2:-1])
                elif seg[0] == "A":
                    # an arc stays within 2*max(rx,ry) (after radius scaling: within the chord length) of its ends
                    rr = max(2 * max(seg[2][0], seg[2][1]), math.hypot(seg[3][0] - seg[1][0], seg[3][1] - seg[1][1]))
                    allp.extend([(seg[1][0] - rr, seg[1][1] - rr), (seg[1][0] + rr, seg[1][1] + rr)])
        self.curved = any(seg[0] != "L" for s in subs for seg in s["segs"])
        if not allp:
            self.extent = 1.0
            self.bbox = None
        else:
            xs = [p[0] for p in allp]
            ys = [p[1] for p in allp]
            self.bbox = (min(xs), min(ys), max(xs), max(ys))
            self.extent = max(self.bbox[2] - self.bbox[0], self.bbox[3] - self.bbox[1], max(abs(v) for v in xs + ys), 1e-300)
        self.tol = 1e-4 * self.extent
        self.polys = geom.flatten(subs, self.tol) if subs else []
        self.A, self.B = geom.edges_of(self.polys, close=True) if self.polys else (np.zeros((0, 2)), np.zeros((0, 2)))
        self.margin = MARGIN_REL * self.extent + (3 * self.tol + 7e-4 * self.extent if self.curved else 0.0)
        # drawn length (open edges only: what a stroke follows), incl. the closing edge of closed subpaths
        L = 0.0
        for pts, closed, _ in self.polys:
            if len(pts) >= 2:
                d = np.diff(pts, axis=0)
                L = max(L, float(np.hypot(d[:, 0], d[:, 1]).max()))
                if closed:
                    L = max(L, float(np.hypot(*(pts[-1] - pts[0]))))
        self.longest = L

    def has_drawn_segment(self):
        return self.longest > 1e-9 * self.extent

    def signed_area(self):
        return geom.polygon_area(self.A, self.B) if len(self.A) else 0.0

    def candidates(self):
        if not len(self.A):
            return np.zeros((0, 2))
        pts = []
        x0, y0 = self.A[:, 0].min(), self.A[:, 1].min()
        x1, y1 = self.A[:, 0].max(), self.A[:, 1].max()
        n = 32
        gx = x0 + (np.arange(n) + 0.5 + 0.0137) / n * (x1 - x0)
        gy = y0 + (np.arange(n) + 0.5 - 0.0071) / n * (y1 - y0)
        X, Y = np.meshgrid(gx, gy)
        pts.append(np.stack([X.ravel(), Y.ravel()], axis=1))
        # triangle centroids of the control polygon: consecutive triples and fans
        for p, _, _ in self.polys:
            m = len(p)
            if m < 3:
                continue
            idx = np.arange(m)
            if m > 60:
                idx = idx[:: m // 60 + 1]
            q = p[idx]
            k = len(q)
            if k >= 3:
                pts.append((q + np.roll(q, -1, axis=0) + np.roll(q, -2, axis=0)) / 3.0)
                pts.append((q[0][None, :] + q + np.roll(q, -1, axis=0)) / 3.0)
                c = q.mean(axis=0)
                pts.append((c[None, :] + q + np.roll(q, -1, axis=0)) / 3.0)
        # multi-scale offsets along edge normals
        d = self.B - self.A
        ln = np.hypot(d[:, 0], d[:, 1])
        good = ln > 0
        if good.any():
            A, d, ln = self.A[good], d[good], ln[good]
            if len(A) > 120:
                sel = np.linspace(0, len(A) - 1, 120).astype(int)
                A, d, ln = A[sel], d[sel], ln[sel]
            nrm = np.stack([-d[:, 1], d[:, 0]], axis=1) / ln[:, None]
            for t in (0.5, 0.23, 0.81):
                mid = A + d * t
                for delta in (2.5 * self.margin, 1e-5 * self.extent, 1e-4 * self.extent, 1e-3 * self.extent, 1e-2 * self.extent):
                    if delta < 2 * self.margin:
                        continue
                    pts.append(mid + nrm * delta)
                    pts.append(mid - nrm * delta)
        return np.concatenate(pts)

    def area_upper_bound(self):
        """Sum of |areas| of the fan triangles (v0, vi, vi+1) of every ring: the winding number of a point is the sum of
        the signed fan triangles containing it, so the filled region lies inside their union.  Exact for triangles."""
        tot = 0.0
        for pts, _, _ in self.polys:
            if len(pts) >= 3:
                a, b = pts[1:-1] - pts[0], pts[2:] - pts[0]
                tot += 0.5 * float(np.abs(a[:, 0] * b[:, 1] - a[:, 1] * b[:, 0]).sum())
        return tot

    def witness(self, rule):
        """-> (x, y, distance to the nearest edge) of a point robustly inside the fill region, or None."""
        key = "_w_" + rule
        if hasattr(self, key):
            return getattr(self, key)
        res = None
        if len(self.A):
            if not hasattr(self, "_cand"):
                self._cand = self.candidates()
                self._wind = geom.winding(self._cand, self.A, self.B) if len(self._cand) else np.zeros(0, dtype=int)
                self._dist = None
            ins = (self._wind % 2 != 0) if rule == "evenodd" else (self._wind != 0)
            if ins.any():
                idx_all = np.nonzero(ins)[0]
                # cheap pass over a strided sample first; all inside candidates only when that fails
                for idx in ((idx_all[:: len(idx_all) // 96 + 1], idx_all) if len(idx_all) > 128 else (idx_all,)):
                    dd = geom.dist_to_edges(self._cand[idx], self.A, self.B)
                    j = int(np.argmax(dd))
                    if dd[j] >= self.margin:
                        res = (float(self._cand[idx[j]][0]), float(self._cand[idx[j]][1]), float(dd[j]))
                        break
        setattr(self, key, res)
        return res


def _geo_traps(geo: Geo, pm, fillable, labels):
    """Naive criteria under which the geometry looks empty (used for the non-trivial flag / class labels)."""
    traps = []
    w_nz = geo.witness("nonzero") if fillable else None
    w_eo = geo.witness("evenodd") if fillable else None
    if (w_nz is None) != (w_eo is None):
        traps.append("rule-sensitive")
    if w_nz is not None and abs(geo.signed_area()) <= 1e-9 * geo.extent**2:
        traps.append("signed-area-0")
    if geo.bbox is not None and geo.has_drawn_segment() and (geo.bbox[2] == geo.bbox[0] or geo.bbox[3] == geo.bbox[1]):
        traps.append("flat-bbox")
    if w_nz is None and geo.has_drawn_segment():
        traps.append("zero-area-geometry")
    if w_nz is not None:
        # small painted area (estimate: disc around the witness is a lower bound; bbox an upper bound)
        bw, bh = geo.bbox[2] - geo.bbox[0], geo.bbox[3] - geo.bbox[1]
        sa = abs(geo.signed_area())
        if bw * bh < 1e-6 * geo.extent**2 or 1e-9 * geo.extent**2 < sa < 1e-6 * geo.extent**2:
            traps.append("small-area")
    return traps, w_nz, w_eo


TINY_AREA = 2.0**-11  # twice the observed engine threshold 2^-12


def _tiny_contours_only(subs, rule) -> bool:
    """Once every subpath that on its own encloses less than TINY_AREA (absolute) is taken away nothing is left that
    paints under `rule`: the whole painted region lies in contours below the engine's threshold."""
    rest, n_tiny = [], 0
    for sp in subs:
        if _is_tiny_areal(sp):
            n_tiny += 1
        else:
            rest.append(sp)
    if not n_tiny:
        return False
    return Geo(rest).witness(rule) is None


def _geo_tiny_areal(gs) -> bool:
    # upper bound of the painted area (a symmetric bow-tie has shoelace area 0 but is not tiny)
    return bool(len(gs.A)) and gs.witness("nonzero") is not None and gs.area_upper_bound() < TINY_AREA


def _is_tiny_areal(sp) -> bool:
    return _geo_tiny_areal(Geo([sp]))


def _per_sub(subs):
    """one Geo per subpath, cached on the list object's first element (cases are evaluated one at a time)"""
    key = id(subs)
    if _per_sub.cache[0] != key:
        _per_sub.cache = (key, [Geo([sp]) for sp in subs], subs)
    return _per_sub.cache[1]


_per_sub.cache = (None, None, None)


def check_shape(case) -> Result:
    r = Result()
    kind, g, a, s = case["kind"], case["g"], case.get("a", {}), case.get("s", {})
    labels = list(case.get("labels", []))
    try:
        shape = build_shape(kind, g, a, s)
    except Exception as e:
        r.rejected = f"build:{type(e).__name__}"
        return r
    try:
        subs, fillable = own_subpaths(kind, g)
    except (render.Unsupported, PathSyntaxError, geom.PathError) as e:
        r.rejected = f"oracle-unsupported:{str(e)[:30]}"
        return r
    try:
        got = shape.might_paint()
    except Exception as e:
        r.rejected = f"convert:{type(e).__name__}"
        return r
    pm = paint_model(a, s)
    geo = Geo(subs)
    traps, w_nz, w_eo = _geo_traps(geo, pm, fillable, labels)
    w = (w_eo if pm["rule"] == "evenodd" else w_nz) if fillable else None
    claims = []
    if pm["fill"] and w is not None:
        claims.append("fill")
    if pm["stroke"] and geo.has_drawn_segment():
        claims.append("stroke")
    # style-borne decision: the property that makes it visible lives in style (attribute alone says otherwise/default)
    style_trap = False
    if claims and s:
        pm_attr_only = paint_model(a, {})
        vis_attr = (pm_attr_only["fill"] and w is not None and (pm_attr_only["rule"] == pm["rule"] or (w_nz is not None and w_eo is not None))) or (pm_attr_only["stroke"] and geo.has_drawn_segment())
        if pm_attr_only["rule"] != pm["rule"] and "rule-sensitive" in traps:
            style_trap = True
        if not vis_attr:
            style_trap = True
    if style_trap:
        traps.append("style-decides")
    cl = [f"kind={kind}", f"might_paint={got}", "oracle=" + ("+".join(claims) if claims else "nothing")]
    cl += [f"piece:{l}" for l in sorted(set(labels))]
    cl += [f"trap:{t}" for t in traps]
    if pm["stroke_paint"] and pm["sw"] == 0:
        cl.append("zero-width-stroke")
    if not pm["display"]:
        cl.append("display-none" + ("-style" if "display" in s else ""))
    if claims == ["stroke"]:
        cl.append("only-stroke-paints")
    r.classes = tuple(cl)
    if claims:
        fill_traps = {"rule-sensitive", "signed-area-0", "small-area", "style-decides"}
        stroke_traps = {"zero-area-geometry", "flat-bbox", "style-decides"}
        r.nontrivial = bool(("fill" in claims and fill_traps & set(traps)) or ("stroke" in claims and stroke_traps & set(traps)))
    if not got and claims == ["fill"] and not case.get("pinned") and _tiny_contours_only(subs, pm["rule"]):
        # neutraliser for known finding ENGINE-TINY-CONTOUR: skia-pathops simplify drops contours (triangles) of area
        # < 2^-12 square user units whenever it does real work (second contour present, or a lone contour that is not
        # convex / runs in the other direction); counted, not judged
        r.excluded = "ENGINE-TINY-CONTOUR"
        r.classes += ("excluded:only-tiny-contours-paint",)
        return r
    if not got and claims:
        what = []
        if "fill" in claims:
            what.append(f"visible fill ({eff(a, s, 'fill')}, rule {pm['rule']}) with witness point ({w[0]!r},{w[1]!r}) {w[2]:.3g} inside (extent {geo.extent:.4g})")
        if "stroke" in claims:
            what.append(f"visible stroke ({eff(a, s, 'stroke')}, width {pm['sw']:g}) along a drawn segment of length {geo.longest:.4g}")
        clause = "pruned-visible-fill" if "fill" in claims else "pruned-visible-stroke"
        r.bad(clause, f"might_paint() is False for {shape!r} but it paints: " + "; ".join(what))
        r.info = {"shape": repr(shape), "claims": claims, "witness": w}
    return r


# ------------------------------------------------------------------ path level: remove_empty_subpaths


def _sample_points(geos, half, frame):
    pts = []
    boxes = [g.bbox for g in geos if g.bbox is not None]
    if not boxes:
        return np.zeros((0, 2))
    x0 = min(b[0] for b in boxes) - 2.5 * half
    y0 = min(b[1] for b in boxes) - 2.5 * half
    x1 = max(b[2] for b in boxes) + 2.5 * half
    y1 = max(b[3] for b in boxes) + 2.5 * half
    if x1 - x0 <= 0:
        x1 = x0 + 1e-9
    if y1 - y0 <= 0:
        y1 = y0 + 1e-9
    n = 14
    gx = x0 + (np.arange(n) + 0.5 + 0.0137) / n * (x1 - x0)
    gy = y0 + (np.arange(n) + 0.5 - 0.0071) / n * (y1 - y0)
    X, Y = np.meshgrid(gx, gy)
    pts.append(np.stack([X.ravel(), Y.ravel()], axis=1))
    for g in geos:
        if len(g.A):
            w1 = g.witness("nonzero")
            w2 = g.witness("evenodd")
            for w in (w1, w2):
                if w is not None:
                    pts.append(np.array([[w[0], w[1]]]))
        # centre line + offsets, per open polyline edge
        for p, closed, _ in g.polys:
            if len(p) < 2:
                continue
            q = np.concatenate([p, p[:1]]) if closed else p
            a, b = q[:-1], q[1:]
            d = b - a
            ln = np.hypot(d[:, 0], d[:, 1])
            ok = ln > 0
            a, d, ln = a[ok], d[ok], ln[ok]
            if not len(a):
                continue
            if len(a) > 24:
                sel = np.linspace(0, len(a) - 1, 24).astype(int)
                a, d, ln = a[sel], d[sel], ln[sel]
            nrm = np.stack([-d[:, 1], d[:, 0]], axis=1) / ln[:, None]
            for t in (0.5, 0.2, 0.8):
                mid = a + d * t
                pts.append(mid)
                if half > 0:
                    for k in (0.5, -0.5, 3.0, -3.0):
                        pts.append(mid + nrm * k * half)
    return np.concatenate(pts)


def check_subpaths(case) -> Result:
    r = Result()
    d, a, s = case["d"], case.get("a", {}), case.get("s", {})
    labels = list(case.get("labels", []))
    fr = case.get("frame", [0.0, 0.0, 128.0])
    try:
        p = build_shape("path", {"d": d}, a, s)
    except Exception as e:
        r.rejected = f"build:{type(e).__name__}"
        return r
    try:
        subs0 = geom.interpret(parse_path(d))
    except (PathSyntaxError, geom.PathError) as e:
        r.rejected = f"oracle-unsupported:{str(e)[:30]}"
        return r
    try:
        q = p.remove_empty_subpaths()
    except Exception as e:
        r.rejected = f"convert:{type(e).__name__}"
        return r
    out_d = q.d
    pm = paint_model(a, s)
    cl = [f"piece:{l}" for l in sorted(set(labels))] + [f"n-subpaths={min(len(subs0), 5)}"]
    if pm["fill"]:
        cl.append("fill-visible")
    if pm["stroke"]:
        cl.append("stroke-visible")
    if p.d != d:
        r.bad("receiver-modified", f"remove_empty_subpaths() (not inplace) changed the receiver's d from {d!r} to {p.d!r}")
    try:
        subs1 = geom.interpret(parse_path(out_d)) if out_d.strip() else []
    except (PathSyntaxError, geom.PathError) as e:
        r.bad("output-unreadable", f"remove_empty_subpaths() of {d!r} gave {out_d!r}: {e}")
        r.classes = tuple(cl)
        return r
    g0, g1 = Geo(subs0), Geo(subs1)
    # same extent/margins on both sides
    g1.extent, g1.margin, g1.tol = g0.extent, g0.margin, g0.tol
    if subs1:
        g1.polys = geom.flatten(subs1, g0.tol)
        g1.A, g1.B = geom.edges_of(g1.polys, close=True)
    E = fr[2]
    sw = pm["sw"] if pm["stroke"] else 0.0
    P = _sample_points([g0, g1], sw / 2.0, fr)
    removed = len(subs0) - len(subs1)
    cl.append(f"subpaths-removed={min(removed, 3)}")
    stats = {"fill_in": 0, "fill_out": 0, "stroke_in": 0, "stroke_out": 0}
    if len(P) and pm["fill"]:
        rule = pm["rule"]
        trusted = np.ones(len(P), dtype=bool)
        if len(g0.A):
            trusted &= geom.dist_to_edges(P, g0.A, g0.B) >= g0.margin
        if len(g1.A):
            trusted &= geom.dist_to_edges(P, g1.A, g1.B) >= g0.margin
        i0 = geom.inside(P, g0.A, g0.B, rule)
        i1 = geom.inside(P, g1.A, g1.B, rule)
        stats["fill_in"] = int((i0 & trusted).sum())
        stats["fill_out"] = int((~i0 & trusted).sum())
        bad = trusted & (i0 != i1)
        if bad.any() and not case.get("pinned"):
            # neutraliser for known finding ENGINE-TINY-CONTOUR: every changed point lies inside a contour that on
            # its own encloses less than TINY_AREA (the engine lost that contour)
            in_tiny = np.zeros(len(P), dtype=bool)
            for gt in _per_sub(subs0):
                if _geo_tiny_areal(gt):
                    in_tiny |= geom.inside(P, gt.A, gt.B, "nonzero")
            if not (bad & ~in_tiny).any():
                r.excluded = "ENGINE-TINY-CONTOUR"
                cl.append("excluded:only-tiny-contours-lost")
                bad = np.zeros(len(P), dtype=bool)
        if bad.any():
            i = int(np.nonzero(bad)[0][0])
            r.bad("fill-region-changed", f"remove_empty_subpaths() of <path d={d!r} {_attrs(a, s)}> gave d={out_d!r}: {int(bad.sum())} points change fill membership under {rule}, e.g. ({P[i][0]!r},{P[i][1]!r}) inside before={bool(i0[i])} after={bool(i1[i])}")
    if len(P) and pm["stroke"]:
        tol_root = 2e-4 * E
        vb = (fr[0], fr[1], E, E)
        args = (sw, eff(a, s, "stroke-linecap"), eff(a, s, "stroke-linejoin"), float(eff(a, s, "stroke-miterlimit")), eff(a, s, "stroke-dasharray"), float(eff(a, s, "stroke-dashoffset")), tol_root, vb)
        s0 = stroke3.StrokeRegion(subs0, render.IDENT, *args, curve_tau=0.004 * E)
        s1 = stroke3.StrokeRegion(subs1, render.IDENT, *args, curve_tau=0.004 * E)
        c0, c1 = s0.classify(P), s1.classify(P)
        both = (c0 >= 0) & (c1 >= 0)
        stats["stroke_in"] = int(((c0 == 1) & both).sum())
        stats["stroke_out"] = int(((c0 == 0) & both).sum())
        # a point definitely inside the original stroke that the result definitely does not cover (or vice versa)
        bad = both & (c0 != c1)
        if bad.any():
            i = int(np.nonzero(bad)[0][0])
            r.bad("stroke-region-changed", f"remove_empty_subpaths() of <path d={d!r} {_attrs(a, s)}> gave d={out_d!r}: {int(bad.sum())} points change stroke membership, e.g. ({P[i][0]!r},{P[i][1]!r}) in stroke before={bool(c0[i] == 1)} after={bool(c1[i] == 1)} (stroke {eff(a, s, 'stroke')} width {sw:g})")
    # which subpaths look empty on their own (no area under nonzero): the ones the method is after
    per = _per_sub(subs0)
    lone_empty = sum(1 for gs in per if gs.witness("nonzero") is None)
    if lone_empty:
        cl.append("has-areal-empty-subpath")
    if lone_empty and pm["stroke"] and any(gs.witness("nonzero") is None and gs.has_drawn_segment() for gs in per):
        cl.append("stroked-zero-area-subpath")
    r.classes = tuple(cl)
    paints = (pm["fill"] and stats["fill_in"] >= 3) or (pm["stroke"] and stats["stroke_in"] >= 3)
    r.nontrivial = bool(len(subs0) >= 2 and lone_empty >= 1 and paints)
    if r.violations:
        r.info = {"out_d": out_d, "stats": stats}
    return r


def _attrs(a, s):
    out = " ".join(f'{k}="{v}"' for k, v in a.items())
    if s:
        out += ' style="' + ";".join(f"{k}:{v}" for k, v in s.items()) + '"'
    return out


# ------------------------------------------------------------------ document level


def _apply(op):
    def fn(text):
        svg = SVG.fromstring(text)
        if op in ("remove_unpainted_shapes", "both"):
            svg = svg.remove_unpainted_shapes()
        if op in ("remove_empty_subpaths", "both"):
            svg = svg.remove_empty_subpaths()
        return svg.tostring()

    return fn


def check_doc(case) -> Result:
    r = Result()
    src, op = case["svg"], case["op"]
    fn = _apply(op)
    try:
        out = fn(src)
    except Exception as e:
        r.rejected = f"convert:{type(e).__name__}"
        return r
    feat = list(case.get("feat", []))
    stats = rendercmp.compare(src, out, r, what=("stack", "rgba"), strokes=True, gradients=False, label=f"{op}: ", convert_fn=fn, attribute=not case.get("pinned"))
    n_src = src.count("<path") + src.count("<rect") + src.count("<circle") + src.count("<ellipse") + src.count("<line") + src.count("<poly")
    n_out = out.count("<path") + out.count("<rect") + out.count("<circle") + out.count("<ellipse") + out.count("<line") + out.count("<poly")
    cl = [f"op={op}", f"shapes-removed={min(n_src - n_out, 3)}"] + [f"piece:{f}" for f in feat]
    r.classes = tuple(cl)
    if stats and not r.rejected:
        changed = (n_out != n_src) or _d_attrs(src) != _d_attrs(out)
        r.nontrivial = bool(stats["trusted"] >= 20 and stats["covered"] >= 5 and changed)
    return r


def _d_attrs(text):
    """number of subpaths of every path element (own reading)"""
    import re

    out = []
    for m in re.findall(r' d="([^"]*)"', text):
        try:
            out.append(len(geom.interpret(parse_path(m))))
        except Exception:
            out.append(-1)
    return out


SUBCHECKS = {
    "shape": Sub("shape", check_shape, strategy=lambda ctx: c18_gen.shape_case(), examples={"quick": 1500, "thorough": 6000}),
    "subpaths": Sub("subpaths", check_subpaths, strategy=lambda ctx: c18_gen.subpaths_case(), examples={"quick": 700, "thorough": 2500}),
    "doc": Sub("doc", check_doc, strategy=lambda ctx: c18_gen.doc_case(), examples={"quick": 350, "thorough": 1200}, describe=lambda c: {"op": c["op"], "svg": c["svg"]}),
}
