"""C09 - rewriting shapes and path data never changes the curve they describe.

Oracle: vlib.refsvg.geom.interpret (own SVG path interpreter) applied to the input and to
every rewrite; own basic-shape outline formulae.
"""
from __future__ import annotations

import itertools
import math

import numpy as np
from hypothesis import strategies as st

from vlib.run import Result, Sub
from vlib.refsvg import geom
from vlib.refsvg.pathgrammar import parse as ref_parse, PathSyntaxError

from picosvg.svg_types import SVGPath, SVGRect, SVGCircle, SVGEllipse, SVGLine, SVGPolygon, SVGPolyline

ID = "C09"
RULE = (
    "Path rewrites: command sequences (exhaustive: every sequence of <=K commands over the 20 path commands after an "
    "initial M/m, arguments from a small lattice with position-dependent values; Hypothesis: <=12 commands with float "
    "arguments incl. leading m, repeated movetos, z followed by drawing commands, zero-length and coincident segments) "
    "are interpreted by an independent SVG path interpreter before and after each rewrite (absolute, relative, "
    "absolute_moveto, explicit_lines, expand_shorthand, arcs_to_cubics, subpaths (each piece and re-joined), move, "
    "as_cmd_seq, round_floats): same subpaths, start/end points, closedness; identical control polygons (1e-9 "
    "relative) where the command family is kept, sampled Hausdorff distance <= 0.03% of the radii where arcs become "
    "cubics; target forms (no lowercase / no S,T,H,V / no A) reached; rounding moves no written number by more than "
    "0.5*10^-n. Shapes: rect/circle/ellipse/line/polyline/polygon with arbitrary incl. zero and over-large parameters "
    "compared with own outline formulae from the SVG shapes chapter. Non-trivial = sequence containing a "
    "context-sensitive ordered pair (shorthand after a curve of either family, any command after z, m after m, "
    "H/V or relative command after a relative command) or, for shapes, non-default corner radii / degenerate size. "
    "Distinct = distinct command sequence / parameter tuple (enumeration distinct by construction)."
)
ASSUMPTIONS = [
    "reference interpreter vlib/refsvg/geom.py implements SVG 1.1 path semantics (self-tested)",
    "moveto-only subpaths (no segment, not closed) are not part of 'the curve' and are ignored in comparisons",
    "negative radii/sizes and odd point lists are SVG errors and are not generated",
]

LETTERS = "MmLlHhVvCcSsQqTtAaZz"


def _fmt(x):
    if isinstance(x, float) and x.is_integer():
        return str(int(x))
    return repr(float(x)) if isinstance(x, float) else str(x)


def to_d(cmds):
    return " ".join(c + " ".join(_fmt(a) for a in args) for c, args in cmds)


def _cmds_of(path: SVGPath):
    return [(c, tuple(a)) for c, a in path]


def _drawn(subs):
    return [s for s in subs if s["segs"] or s["closed"]]


def _scale(subs):
    m = 1.0
    for s in subs:
        m = max(m, abs(s["start"][0]), abs(s["start"][1]))
        for seg in s["segs"]:
            for p in seg[1:]:
                if isinstance(p, tuple) and len(p) == 2:
                    m = max(m, abs(p[0]), abs(p[1]))
    return m


def _pt_close(p, q, tol):
    return abs(p[0] - q[0]) <= tol and abs(p[1] - q[1]) <= tol


def same_polygons(ref, got, tol, shift=(0.0, 0.0)):
    """Exact structural comparison (same segment kinds & control points within tol)."""
    a, b = _drawn(ref), _drawn(got)
    if len(a) != len(b):
        return f"{len(b)} drawn subpaths, expected {len(a)}"
    for i, (s, t) in enumerate(zip(a, b)):
        if s["closed"] != t["closed"]:
            return f"subpath {i}: closed={t['closed']}, expected {s['closed']}"
        st_ = (s["start"][0] + shift[0], s["start"][1] + shift[1])
        if not _pt_close(st_, t["start"], tol):
            return f"subpath {i}: start {t['start']}, expected {st_}"
        if len(s["segs"]) != len(t["segs"]):
            return f"subpath {i}: {len(t['segs'])} segments, expected {len(s['segs'])}"
        for j, (u, v) in enumerate(zip(s["segs"], t["segs"])):
            if u[0] != v[0]:
                return f"subpath {i} seg {j}: kind {v[0]}, expected {u[0]}"
            for pu, pv in zip(u[1:], v[1:]):
                if len(pu) == 2:
                    pu2 = (pu[0] + shift[0], pu[1] + shift[1])
                    if not _pt_close(pu2, pv, tol):
                        return f"subpath {i} seg {j} ({u[0]}): point {pv}, expected {pu2}"
                else:  # arc parameters
                    if tuple(pu) != tuple(pv):
                        return f"subpath {i} seg {j}: arc params {pv}, expected {pu}"
    return None


def _sample(sub, n_per_seg=24):
    pts = [sub["start"]]
    for seg in sub["segs"]:
        if seg[0] == "L":
            pts.append(seg[2])
        else:
            for k in range(1, n_per_seg + 1):
                pts.append(geom.seg_point(seg, k / n_per_seg))
    return np.array(pts, dtype=float).reshape(-1, 2)


def _dist_pts_to_polyline(P, Q):
    if len(Q) == 1:
        return np.sqrt(((P - Q[0]) ** 2).sum(axis=1))
    return geom.dist_to_edges(P, Q[:-1], Q[1:])


def same_curve(ref, got, tol_abs, radii_rel=3e-4):
    """Structure exact (subpath count, closedness, start/end), point sets by sampled Hausdorff distance."""
    a, b = _drawn(ref), _drawn(got)
    if len(a) != len(b):
        return f"{len(b)} drawn subpaths, expected {len(a)}"
    for i, (s, t) in enumerate(zip(a, b)):
        if s["closed"] != t["closed"]:
            return f"subpath {i}: closed={t['closed']}, expected {s['closed']}"
        if not _pt_close(s["start"], t["start"], tol_abs):
            return f"subpath {i}: start {t['start']}, expected {s['start']}"
        es = s["segs"][-1][-1] if s["segs"] else s["start"]
        et = t["segs"][-1][-1] if t["segs"] else t["start"]
        if not _pt_close(es, et, tol_abs):
            return f"subpath {i}: end {et}, expected {es}"
        rmax = 0.0
        for seg in s["segs"]:
            if seg[0] == "A":
                from vlib.refsvg.arcref import centre_param

                arc = centre_param(seg[1][0], seg[1][1], *seg[2], seg[3][0], seg[3][1])
                if arc is not None:
                    rmax = max(rmax, arc.rx, arc.ry)
        bound = tol_abs + radii_rel * rmax * 1.02  # 1.02: sampling of the reference itself
        P, Q = _sample(s, 48), _sample(t, 48)
        d1 = _dist_pts_to_polyline(P, Q).max() if len(P) else 0
        d2 = _dist_pts_to_polyline(Q, P).max() if len(Q) else 0
        # the polyline through 48 samples/segment deviates from the true curve by its own sagitta
        sag = 0.0
        for seg in s["segs"]:
            if seg[0] == "A":
                sag = max(sag, rmax * (1 - math.cos(math.pi / 48)))
            elif seg[0] in "QC":
                ext = max(math.hypot(p[0] - seg[1][0], p[1] - seg[1][1]) for p in seg[2:])
                sag = max(sag, ext * 1.5 / (48 * 48))
        if max(d1, d2) > bound + 2 * sag:
            return f"subpath {i}: curves differ by {max(d1, d2):.6g} (bound {bound + 2*sag:.3g})"
    return None


REWRITES = ("absolute", "relative", "absolute_moveto", "explicit_lines", "expand_shorthand", "arcs_to_cubics", "as_cmd_seq", "move", "subpaths", "round_floats")


def check_path(case) -> Result:
    cmds = [(c, tuple(float(x) for x in a)) for c, a in case["cmds"]]
    r = Result()
    d = to_d(cmds)
    notes = []
    try:
        ref = geom.interpret(cmds, notes)
    except geom.PathError as e:
        r.rejected = f"oracle:{e}"
        return r
    if notes:
        r.rejected = "ambiguous:" + notes[0]
        return r
    scale = _scale(ref)
    nseg = sum(len(s["segs"]) for s in ref) + 1
    tol = 1e-9 * scale * 4 + 1e-9
    letters = [c for c, _ in cmds]
    pairs = set(zip(letters, letters[1:]))
    ctx_sensitive = any(
        (b in "SsTt" and a in "CcSsQqTt") or a in "Zz" or (a in "Mm" and b in "Mm") or (a.islower() and a not in "z" and (b in "HhVv" or b.islower()))
        for a, b in pairs
    )
    r.nontrivial = ctx_sensitive
    r.classes = tuple(sorted({f"{a}{b}" for a, b in pairs if a in "Zz" or b in "SsTt"}))[:6]

    def fail(clause, msg):
        r.bad(clause, f"{msg}; d={d!r}")

    def run(name, fn):
        try:
            return fn()
        except Exception as e:
            fail(f"{name}-raises", f"{name} raised {type(e).__name__}: {e}")
            return None

    base = SVGPath(d=d)
    only = case.get("only")

    def want(n):
        return only is None or n in only

    # --- family-preserving rewrites: identical control polygons
    for name in ("absolute", "relative", "absolute_moveto", "explicit_lines", "expand_shorthand"):
        if not want(name):
            continue
        out = run(name, lambda: getattr(SVGPath(d=d), name)())
        if out is None:
            continue
        try:
            oc = _cmds_of(out)
            got = geom.interpret(oc)
        except Exception as e:
            fail(f"{name}-unreadable", f"{name}() -> {out.d!r} cannot be interpreted: {e}")
            continue
        t = tol * (nseg if name == "relative" else 1)
        m = same_polygons(ref, got, t)
        if m:
            fail(name, f"{name}() -> {out.d!r}: {m}")
        ls = [c for c, _ in oc]
        if name == "absolute" and any(c.islower() and c != "z" for c in ls):
            fail("absolute-form", f"absolute() left a relative command: {out.d!r}")
        if name == "relative" and any(c.isupper() and c != "Z" for c in ls[1:]):
            fail("relative-form", f"relative() left an absolute command: {out.d!r}")
        if name == "absolute_moveto" and any(c == "m" for c in ls):
            fail("absolute_moveto-form", f"absolute_moveto() left a relative moveto: {out.d!r}")
        if name == "explicit_lines" and any(c in "HhVv" for c in ls):
            fail("explicit_lines-form", f"explicit_lines() left H/V: {out.d!r}")
        if name == "expand_shorthand" and any(c in "SsTt" for c in ls):
            fail("expand_shorthand-form", f"expand_shorthand() left S/T: {out.d!r}")
        if base.d != d:
            fail("mutates-receiver", f"{name}() without inplace changed the receiver")
            base = SVGPath(d=d)

    # combined explicit_lines + expand_shorthand (as SVG.expand_shorthand does)
    if want("expand_shorthand"):
        out = run("explicit+expand", lambda: SVGPath(d=d).explicit_lines().expand_shorthand(inplace=True))
        if out is not None:
            ls = [c for c, _ in out]
            if any(c in "SsTtHhVv" for c in ls):
                fail("expand-form", f"explicit_lines+expand_shorthand left S/T/H/V: {out.d!r}")

    # --- arcs_to_cubics and as_cmd_seq: same curve
    for name in ("arcs_to_cubics", "as_cmd_seq"):
        if not want(name):
            continue
        out = run(name, lambda: getattr(SVGPath(d=d), name)())
        if out is None:
            continue
        try:
            oc = _cmds_of(out)
            got = geom.interpret(oc)
        except Exception as e:
            fail(f"{name}-unreadable", f"{name}() -> {out.d!r} cannot be interpreted: {e}")
            continue
        m = same_curve(ref, got, tol)
        if m:
            fail(name, f"{name}() -> {out.d!r}: {m}")
        ls = [c for c, _ in oc]
        if any(c in "Aa" for c in ls):
            fail(f"{name}-form", f"{name}() left an arc: {out.d!r}")
        if name == "as_cmd_seq" and any(c not in "MLCQZ" for c in ls):
            fail("as_cmd_seq-form", f"as_cmd_seq() has commands outside M L C Q Z: {out.d!r}")
        if name == "arcs_to_cubics" and not any(c in "Aa" for c in letters):
            m2 = same_polygons(ref, got, tol)
            if m2:
                fail(name, f"arcs_to_cubics() changed an arc-free path: {out.d!r}: {m2}")

    # --- move
    if want("move"):
        dx, dy = case.get("dx", 3.0), case.get("dy", -7.5)
        out = run("move", lambda: SVGPath(d=d).move(dx, dy))
        if out is not None:
            try:
                got = geom.interpret(_cmds_of(out))
                m = same_polygons(ref, got, tol + 1e-9 * (abs(dx) + abs(dy)), shift=(dx, dy))
                if m:
                    fail("move", f"move({dx},{dy}) -> {out.d!r}: {m}")
            except Exception as e:
                fail("move-unreadable", f"move() -> {out.d!r}: {e}")

    # --- subpaths: pieces individually and re-joined
    if want("subpaths"):
        pieces = run("subpaths", lambda: SVGPath(d=d).subpaths())
        if pieces is not None:
            try:
                got_all = []
                for p in pieces:
                    got_all.extend(geom.interpret(ref_parse(p)))
                m = same_polygons(ref, got_all, tol)
                if m:
                    fail("subpaths", f"subpaths() -> {pieces!r}: {m}")
                joined = geom.interpret(ref_parse(" ".join(pieces)))
                m = same_polygons(ref, joined, tol)
                if m:
                    fail("subpaths-joined", f"' '.join(subpaths()) -> {' '.join(pieces)!r}: {m}")
                for p in pieces:
                    if len(_drawn(geom.interpret(ref_parse(p)))) > 1:
                        fail("subpaths-split", f"piece {p!r} holds more than one subpath")
            except (geom.PathError, PathSyntaxError) as e:
                fail("subpaths-unreadable", f"subpaths() -> {pieces!r} not interpretable on their own: {e}")

    # --- rounding
    if want("round_floats"):
        for n in case.get("ndigits", (0, 2)):
            out = run("round_floats", lambda: SVGPath(d=d).round_floats(n))
            if out is None:
                continue
            oc = _cmds_of(out)
            if [c for c, _ in oc] != letters:
                fail("round_floats", f"round_floats({n}) changed the commands: {out.d!r}")
                continue
            half = 0.5 * 10.0 ** (-n)
            for (c, a), (_, b) in zip(cmds, oc):
                for x, y in zip(a, b):
                    if abs(x - y) > half * (1 + 1e-9) + abs(x) * 4e-16:
                        fail("round_floats", f"round_floats({n}) moved {x!r} to {y!r} in {c}")
                    elif round(y, n) != y:
                        fail("round_floats", f"round_floats({n}) left {y!r} unrounded in {c}")
    return r


# ------------------------------------------------------------------ generators

LATTICE = [0.0, 1.0, -2.0, 3.5]


def _lattice_args(letter, pos, variant):
    """Deterministic small-lattice arguments, different per position so that segments are not all coincident."""
    lc = letter.lower()
    n = geom.NARGS[lc]
    if lc == "a":
        flags = [(0, 0), (1, 0), (0, 1), (1, 1)][(pos + variant) % 4]
        rx, ry = [(2.0, 1.0), (1.0, 1.0), (0.5, 3.0), (0.0, 1.0)][(pos + 2 * variant) % 4]
        rot = [0.0, 30.0][(pos + variant) % 2]
        x = LATTICE[(pos + 1 + variant) % 4]
        y = LATTICE[(2 * pos + 3 + variant) % 4]
        return (rx, ry, rot, flags[0], flags[1], x, y)
    return tuple(LATTICE[(i * 3 + pos * (i + 1) + variant * (i + 2) + (1 if letter.isupper() else 0)) % 4] for i in range(n))


def enum_paths(ctx, shard, nshards):
    K = {"quick": 2, "thorough": 4}[ctx.tier]
    ev = nt = 0
    idx = 0
    classes = {}
    coverage = set()
    for first in "Mm":
        for k in range(0, K + 1):
            variants = (0, 1) if k <= 3 else (0,)
            for seq in itertools.product(LETTERS, repeat=k):
                idx += 1
                if idx % nshards != shard:
                    continue
                if ctx.time_left() < 0:
                    ctx.budget_exhausted = True
                    ctx.exhaustive["sequences"] = False
                    ctx.bulk("exh_paths", ev, nt, classes)
                    return
                for v in variants:
                    cmds = [[first, [1.0, -2.0] if v == 0 else [0.0, 0.0]]]
                    for pos, l in enumerate(seq):
                        cmds.append([l, list(_lattice_args(l, pos + 1, v))])
                    case = {"cmds": cmds, "ndigits": (0,)}
                    res = check_path(case)
                    if res.rejected:
                        continue
                    ev += 1
                    nt += 1 if res.nontrivial else 0
                    coverage.update(zip(seq, seq[1:]))
                    for clause, msg in res.violations:
                        ctx.fail("path", clause, msg, case, res.info)
    ctx.exhaustive[f"sequences<={K}"] = True
    classes["ordered_pairs_covered_of_400"] = len(coverage)
    ctx.bulk("exh_paths", ev, nt, classes)
    ctx.add_sample({"sub": "exh_paths", "case": to_d([("M", (1.0, -2.0))] + [(l, _lattice_args(l, i + 1, 0)) for i, l in enumerate("sTzl"[: max(1, K)])])})


def _q(x):
    # magnitudes below 1e-3 are outside the stated range ("several orders of magnitude"); snap to 0
    return 0.0 if abs(x) < 1e-3 else x


def _num():
    return st.one_of(
        st.sampled_from([0.0, 1.0, -1.0, 2.0, 10.0, -5.0, 0.5, 100.0]),
        st.floats(-200, 200).map(lambda x: round(x, 3)),
        st.floats(-1e4, 1e4).map(_q),
    )


@st.composite
def loop_case(draw):
    """Closed loops written with relative commands in non-dyadic decimals: the last segment returns to the
    start exactly in decimal arithmetic but only approximately in floats (exercises near-start snapping)."""
    from decimal import Decimal

    dec = st.integers(-30, 30).map(lambda k: Decimal(k) / Decimal(10))
    x0, y0 = draw(dec), draw(dec)
    cmds = [["M", [float(x0), float(y0)]]]
    nsub = draw(st.integers(1, 2))
    for _ in range(nsub):
        sx = sy = Decimal(0)
        for _ in range(draw(st.integers(2, 5))):
            l = draw(st.sampled_from("llllhvcqst"))
            if l == "h":
                dx, dy, args = draw(dec), Decimal(0), None
                args = [float(dx)]
            elif l == "v":
                dx, dy = Decimal(0), draw(dec)
                args = [float(dy)]
            else:
                dx, dy = draw(dec), draw(dec)
                extra = {"l": 0, "t": 0, "q": 1, "s": 1, "c": 2}[l]
                args = []
                for _ in range(extra):
                    args += [float(draw(dec)), float(draw(dec))]
                args += [float(dx), float(dy)]
            sx += dx
            sy += dy
            cmds.append([l, args])
        cmds.append(["l", [float(-sx), float(-sy)]])
        if draw(st.integers(0, 3)) == 0:
            # the "full circle with one arc" idiom with a minute gap, started away from the subpath start
            r_ = float(draw(st.integers(1, 30)) / 10)
            gap = draw(st.sampled_from([5e-10, 2e-10, 9e-10]))
            cmds.append(["l", [1.5, 0.25]])
            cmds.append(["a", [r_, r_, 0.0, 1, draw(st.integers(0, 1)), 0.0, gap]])
            cmds.append(["l", [-1.5, -0.25 - gap]])
        closer = draw(st.sampled_from(["z", "Z", "m", None]))
        if closer in ("z", "Z"):
            cmds.append([closer, []])
        elif closer == "m":
            cmds.append(["m", [float(draw(dec)), float(draw(dec))]])
    return {"cmds": cmds, "dx": float(draw(dec)), "dy": float(draw(dec)), "ndigits": (draw(st.integers(0, 6)),)}


@st.composite
def path_case(draw):
    if draw(st.integers(0, 3)) == 0:
        return draw(loop_case())
    n = draw(st.integers(1, 12))
    cmds = [[draw(st.sampled_from("MMm")), [draw(_num()), draw(_num())]]]
    pool = LETTERS + "zZsStTmM"
    for _ in range(n):
        l = draw(st.sampled_from(pool))
        lc = l.lower()
        if lc == "a":
            args = [abs(draw(_num())), abs(draw(_num())), draw(st.sampled_from([0.0, 30.0, 90.0, -45.0, 200.0])), draw(st.integers(0, 1)), draw(st.integers(0, 1)), draw(_num()), draw(_num())]
        else:
            args = [draw(_num()) for _ in range(geom.NARGS[lc])]
        if draw(st.integers(0, 9)) == 0 and lc in "lc" and args:
            args = [0.0] * len(args) if l.islower() else args  # zero-length relative segment
        cmds.append([l, args])
    return {"cmds": cmds, "dx": draw(_num()), "dy": draw(_num()), "ndigits": (draw(st.integers(0, 6)),)}


# ------------------------------------------------------------------ shapes


def _ref_shape(kind, p):
    """Reference outline as command list (own formulae, SVG 1.1 shapes chapter)."""
    if kind == "rect":
        x, y, w, h, rx, ry = p["x"], p["y"], p["width"], p["height"], p["rx"], p["ry"]
        # 0 = not specified at the dataclass level
        if not rx:
            rx = ry
        if not ry:
            ry = rx
        rx, ry = min(rx, w / 2), min(ry, h / 2)
        if rx > 0 and ry > 0:
            return [("M", (x + rx, y)), ("H", (x + w - rx,)), ("A", (rx, ry, 0, 0, 1, x + w, y + ry)), ("V", (y + h - ry,)), ("A", (rx, ry, 0, 0, 1, x + w - rx, y + h)), ("H", (x + rx,)), ("A", (rx, ry, 0, 0, 1, x, y + h - ry)), ("V", (y + ry,)), ("A", (rx, ry, 0, 0, 1, x + rx, y)), ("Z", ())]
        return [("M", (x, y)), ("H", (x + w,)), ("V", (y + h,)), ("H", (x,)), ("V", (y,)), ("Z", ())]
    if kind in ("circle", "ellipse"):
        cx, cy = p["cx"], p["cy"]
        rx, ry = (p["r"], p["r"]) if kind == "circle" else (p["rx"], p["ry"])
        return [("M", (cx + rx, cy)), ("A", (rx, ry, 0, 0, 1, cx, cy + ry)), ("A", (rx, ry, 0, 0, 1, cx - rx, cy)), ("A", (rx, ry, 0, 0, 1, cx, cy - ry)), ("A", (rx, ry, 0, 0, 1, cx + rx, cy)), ("Z", ())]
    if kind == "line":
        return [("M", (p["x1"], p["y1"])), ("L", (p["x2"], p["y2"]))]
    pts = p["pts"]
    cmds = [("M", tuple(pts[0]))] + [("L", tuple(q)) for q in pts[1:]]
    if kind == "polygon":
        cmds.append(("Z", ()))
    return cmds


def check_shape(case) -> Result:
    kind, p = case["kind"], case["p"]
    r = Result()
    try:
        if kind == "rect":
            shape = SVGRect(**p)
        elif kind == "circle":
            shape = SVGCircle(**p)
        elif kind == "ellipse":
            shape = SVGEllipse(**p)
        elif kind == "line":
            shape = SVGLine(**p)
        else:
            s = case["sep"].join(f"{_fmt(x)}{case['pairsep']}{_fmt(y)}" for x, y in p["pts"])
            shape = (SVGPolygon if kind == "polygon" else SVGPolyline)(points=s)
        path = shape.as_path()
        got = geom.interpret(_cmds_of(path))
        got2 = geom.interpret(_cmds_of(shape.as_cmd_seq()))
    except Exception as e:
        r.bad("shape-raises", f"{kind} {p}: as_path raised {type(e).__name__}: {e}")
        return r
    ref = geom.interpret(_ref_shape(kind, p))
    scale = _scale(ref)
    tol = 1e-9 * scale * 4 + 1e-9
    degenerate = (kind == "rect" and (p["width"] == 0 or p["height"] == 0)) or (kind == "circle" and p["r"] == 0) or (kind == "ellipse" and (p["rx"] == 0 or p["ry"] == 0))
    r.nontrivial = degenerate or (kind == "rect" and (p["rx"] or p["ry"])) or kind in ("polygon", "polyline", "ellipse")
    r.classes = (kind,) + (("degenerate",) if degenerate else ())
    for name, g in (("as_path", got), ("as_cmd_seq", got2)):
        if degenerate and kind in ("circle", "ellipse", "rect"):
            # SVG disables rendering of such an element; any outline that encloses nothing and stays
            # inside the (degenerate) box of the shape describes the same empty curve
            if kind == "rect":
                rx, ry = p["width"] / 2, p["height"] / 2
                p = dict(p, cx=p["x"] + rx, cy=p["y"] + ry)
            else:
                rx, ry = (p["r"], p["r"]) if kind == "circle" else (p["rx"], p["ry"])
            pb = geom.flatten(g, 1e-3 * max(rx, ry, 1e-3))
            A_, B_ = geom.edges_of(pb)
            m = None
            if len(A_) and abs(geom.polygon_area(A_, B_)) > tol:
                m = f"degenerate {kind} encloses area {geom.polygon_area(A_, B_)}"
            for pts, _, _ in pb:
                if len(pts) and (np.abs(pts[:, 0] - p["cx"]).max() > rx + tol or np.abs(pts[:, 1] - p["cy"]).max() > ry + tol):
                    m = f"degenerate {kind} outline leaves its box"
            if m:
                r.bad(f"shape-{name}", f"{kind} {p}: {name} -> {path.d!r}: {m}")
            continue
        if kind in ("line", "polyline", "polygon") or (kind == "rect" and not (p["rx"] or p["ry"])):
            m = same_polygons(ref, g, tol)
        else:
            m = same_curve(ref, g, tol)
            if not m and degenerate is False:
                # closed outline must enclose the same area sign/magnitude (guards against half missing)
                size = min(p["width"], p["height"]) / 2 if kind == "rect" else max(p.get("r", 0), p.get("rx", 0), p.get("ry", 0), 1e-6)
                pa = geom.flatten(ref, size * 1e-5)
                pb = geom.flatten(g, size * 1e-5)
                a1 = geom.polygon_area(*geom.edges_of(pa))
                a2 = geom.polygon_area(*geom.edges_of(pb))
                if abs(a1 - a2) > 2e-3 * abs(a1) + tol:
                    m = f"enclosed area {a2} != {a1}"
        if m:
            r.bad(f"shape-{name}", f"{kind} {p}: {name} -> {path.d!r}: {m}")
    return r


def _len():
    return st.one_of(st.sampled_from([0.0, 1.0, 10.0, 0.5, 100.0]), st.floats(0, 500).map(lambda x: round(x, 2)))


@st.composite
def shape_case(draw):
    kind = draw(st.sampled_from(["rect", "rect", "circle", "ellipse", "line", "polyline", "polygon"]))
    if kind == "rect":
        p = dict(x=draw(_num()), y=draw(_num()), width=draw(_len()), height=draw(_len()), rx=draw(st.one_of(st.just(0.0), _len())), ry=draw(st.one_of(st.just(0.0), _len())))
    elif kind == "circle":
        p = dict(cx=draw(_num()), cy=draw(_num()), r=draw(_len()))
    elif kind == "ellipse":
        p = dict(cx=draw(_num()), cy=draw(_num()), rx=draw(_len()), ry=draw(_len()))
    elif kind == "line":
        p = dict(x1=draw(_num()), y1=draw(_num()), x2=draw(_num()), y2=draw(_num()))
    else:
        n = draw(st.integers(1, 7))
        p = dict(pts=[[draw(_num()), draw(_num())] for _ in range(n)])
    return {"kind": kind, "p": p, "sep": draw(st.sampled_from([" ", "  ", ", "])), "pairsep": draw(st.sampled_from([",", " ", " , "]))}


SUBCHECKS = {
    "path": Sub("path", check_path, strategy=lambda ctx: path_case(), examples={"quick": 600, "thorough": 6000}, describe=lambda c: {"d": to_d([(a, tuple(b)) for a, b in c["cmds"]])}),
    "exh_paths": Sub("exh_paths", check_path, enumerate=enum_paths),
    "shape": Sub("shape", check_shape, strategy=lambda ctx: shape_case(), examples={"quick": 600, "thorough": 5000}),
}
