"""C11 - transform strings and affine algebra follow the SVG specification.

Oracles (all in vlib/c11_ref.py, nothing there imports picosvg):
  * own recursive-descent parser of the SVG 1.1 transform-list grammar + own 3x3 matrix product over exact
    rationals (trigonometric values taken as exact doubles) -> matrix a transform attribute denotes;
  * exact rational arithmetic through the duck-typed Affine2D for the algebraic laws (random evaluation of
    polynomial identities) and own adjugate inverse;
  * own statement of the preserveAspectRatio rules for rect_to_rect;
  * own exact product for re-composing the scale / translation decompositions.
"""
from __future__ import annotations

import math
import struct
import sys
from fractions import Fraction

from hypothesis import strategies as st

from vlib.run import Result, Sub
from vlib import c11_ref as ref

from picosvg.geometric_types import Rect
from picosvg.svg_transform import Affine2D

ID = "C11"
RULE = (
    "Every case is decoded deterministically from one fixed-size byte string drawn by Hypothesis (one draw per case). "
    "parse: transform lists from the SVG 1.1 grammar: 1-5 operations out of matrix/translate/scale/"
    "rotate/skewX/skewY, optional arguments present or omitted (translate ty, scale sy, rotate cx cy), numbers spelled "
    "as integer / decimal (leading or trailing dot) / exponent (e/E, signed) / signed / leading-zero forms, every "
    "comma-wsp spelling between numbers (spaces, tab, newline, CR-LF, one comma with optional wsp around), optional wsp "
    "inside the parentheses, before '(' and around the list, comma-wsp+ (also several commas) or nothing between "
    "operations; angles in degrees incl. multiples of 45 and > 360. An independent parser + exact 3x3 product gives the "
    "denoted matrix; Affine2D.fromstring must agree entrywise within 1e-9 of the magnitude of the sums involved, map a "
    "point the same way, and fromstring(tostring()) of the result must be exactly equal. compose: 1-5 exact rational "
    "affines + point; compose_ltr(list).map_point(p) must equal mapping p through the 1st, then 2nd, ... exactly. "
    "algebra: triples of rational (exact) or float 6-tuples, a point, translate/scale arguments; '@', matrix(), "
    "translate(), scale(), determinant(), map_point, map_vector, is_degenerate, inverse are compared with own exact "
    "3x3 algebra (exactly for rationals, 1e-12 of the magnitude for floats); T@T^-1 == T^-1@T == I exactly whenever "
    "|det| > float epsilon, incl. negative and tiny determinants. roundtrip: arbitrary finite double 6-tuples (subnormal, "
    "huge, -0.0, 17 significant digits, integer-valued, pure translations); tostring() must be grammar-conforming, "
    "denote exactly the same matrix under the reference reading, and fromstring() must return it. rect: pairs of "
    "non-empty rects (rational or float) x 10 alignments x {meet, slice, absent} (+ default argument): scale = min/max "
    "of the two ratios or independent for none, aligned sides / centres coincide, image inside (meet) / covering "
    "(slice) the destination. decompose: well-conditioned float matrices (rotation x skew x scale, scale factors "
    "0.01..100, |translation| <= 1e4, incl. exact multiples of 90 degrees): decompose_scale / decompose_translation "
    "parts have the promised shape and their left-to-right product (own exact product) equals the original within 1e-4. "
    "Non-trivial = parse: >=2 operations of different kinds; compose/algebra: a non-commuting pair; roundtrip: matrix "
    "form with a value needing > 6 significant digits or an exponent; rect: aspect ratios differ and align != none; "
    "decompose: non-zero translation and non-diagonal 2x2 part. Distinct = distinct case (string / number tuple)."
)
ASSUMPTIONS = [
    "SVG 1.1 transform-list grammar as transcribed in vlib/c11_ref.py (comma-wsp mandatory between numbers); two operations "
    "directly following each other without separator are accepted as in SVG 2 / browsers",
    "a number token denotes the nearest double; sin/cos/tan of the host libm are accurate to a few ulp",
    "skew angles closer than 1 degree to 90+k*180 and angles beyond 1e5 degrees are fenced (tan is ill-conditioned there)",
    "non-degenerate = |determinant| > sys.float_info.epsilon (the library's own definition)",
    "preserveAspectRatio is spelled as in the spec (xMidYMid etc.) with a single space before meet/slice",
    "decompositions are only required to recompose (within the library's own 1e-4) for well-conditioned matrices: "
    "singular values in [1e-3, 1e3], |e|,|f| <= 1e4",
]

EPS = sys.float_info.epsilon
F = Fraction


# ------------------------------------------------------------------ helpers


def _num(v):
    """case encoding: rationals are strings 'p/q', floats/ints are JSON numbers"""
    if isinstance(v, str):
        return Fraction(v)
    return v


def _exact(v):
    return v if isinstance(v, Fraction) else Fraction(v)


def _enc(q: Fraction) -> str:
    return str(q)


def _finite(vals):
    return all(isinstance(v, Fraction) or math.isfinite(v) for v in vals)


def _close(got, want: Fraction, tol) -> bool:
    try:
        if not isinstance(got, Fraction) and not math.isfinite(got):
            return False
        return abs(Fraction(got) - want) <= tol
    except (TypeError, ValueError, OverflowError):
        return False


def _fmt(m):
    return "(" + ", ".join(str(float(v)) if isinstance(v, Fraction) and v.denominator != 1 else str(v) for v in m) + ")"


# ------------------------------------------------------------------ parse

REL = Fraction(1, 10**9)
TINY = Fraction(1, 10**300)


def check_parse(case) -> Result:
    s = case["s"]
    p = case.get("p", [1, 1])
    r = Result()
    try:
        ops, feats = ref.parse_transform_list(s)
    except ref.TransformSyntaxError:
        r.classes = ("not-conforming",)
        return r  # the property says nothing about strings outside the grammar
    if not ops:
        r.classes = ("empty-list",)
    for op, vals in ops:
        if op in ("skewX", "skewY") and ref.pole_distance_deg(vals[0]) < ref.SKEW_POLE_FENCE_DEG:
            r.rejected = "fenced:skew-near-pole"
            return r
        if op in ("skewX", "skewY", "rotate") and abs(vals[0]) > ref.MAX_ANGLE_DEG:
            r.rejected = "fenced:huge-angle"
            return r
    want, bound = ref.transform_list_matrix(ops)
    kinds = [op for op, _ in ops]
    cls = ["parse", f"n-ops={len(ops)}"] + sorted({"op:" + k for k in kinds}) + sorted(feats)
    if any(op == "rotate" and len(v) == 3 for op, v in ops):
        cls.append("rotate-about-centre")
    r.classes = tuple(cls)
    r.nontrivial = len(set(kinds)) >= 2
    try:
        got = Affine2D.fromstring(s)
    except Exception as e:
        r.bad("parse-raises", f"Affine2D.fromstring({s!r}) raised {type(e).__name__}: {e}; the grammar accepts it as {ops!r}")
        return r
    if not isinstance(got, Affine2D) or len(got) != 6:
        r.bad("parse-matrix", f"Affine2D.fromstring({s!r}) returned {got!r}")
        return r
    for name, g, w, b in zip("abcdef", got, want, bound):
        if not _close(g, w, REL * b + TINY):
            r.bad(
                "parse-matrix",
                f"Affine2D.fromstring({s!r}) = {tuple(got)}; the listed operations {[(o, [float(v) for v in vs]) for o, vs in ops]} "
                f"multiply to {_fmt(want)}: entry {name} is {g!r}, expected {float(w)!r}",
            )
            r.info = {"expected": [float(v) for v in want], "observed": list(got)}
            return r
    # the point goes through the LAST listed operation first
    px, py = Fraction(p[0]), Fraction(p[1])
    wp = ref.apply(want, (px, py))
    bp = ref.apply(bound, (abs(px), abs(py)))
    try:
        gp = got.map_point((p[0], p[1]))
    except Exception as e:
        r.bad("map-point", f"fromstring({s!r}).map_point({p}) raised {type(e).__name__}: {e}")
        return r
    for g, w, b in zip(gp, wp, bp):
        if not _close(g, w, REL * b + TINY):
            r.bad("map-point", f"fromstring({s!r}).map_point({p}) = {tuple(gp)}, expected {(float(wp[0]), float(wp[1]))}")
            return r
    # serialise + re-parse returns the same matrix
    if _finite(got):
        _roundtrip(r, got, f"fromstring({s!r})")
    return r


def _roundtrip(r: Result, T: Affine2D, what: str):
    try:
        txt = T.tostring()
    except Exception as e:
        r.bad("roundtrip-raises", f"{what}.tostring() raised {type(e).__name__}: {e}")
        return None
    # (1) the text is a transform list, (2) it denotes T exactly under the reference reading
    try:
        ops, _ = ref.parse_transform_list(txt)
    except ref.TransformSyntaxError as e:
        r.bad("tostring-nonconforming", f"{what} = {tuple(T)} serialises to {txt!r} which the grammar rejects: {e}")
        return txt
    try:
        denoted = ref.product([m for op, vals in ops for m, _ in ref.elementary(op, [Fraction(float(v)) for v in vals])])
    except OverflowError:
        denoted = None
    if denoted is None or any(_exact(a) != b for a, b in zip(T, denoted)):
        r.bad("tostring-lossy", f"{what} = {tuple(T)} serialises to {txt!r} which denotes {None if denoted is None else _fmt(denoted)}")
        return txt
    try:
        back = Affine2D.fromstring(txt)
    except Exception as e:
        r.bad("roundtrip-raises", f"fromstring({txt!r}) (printed by tostring of {tuple(T)}) raised {type(e).__name__}: {e}")
        return txt
    if not (back == T):
        r.bad("roundtrip", f"{what} = {tuple(T)} -> tostring {txt!r} -> fromstring {tuple(back)}")
    return txt


# ------------------------------------------------------------------ roundtrip of arbitrary finite floats


def _needs_digits(x: float) -> bool:
    if x == 0 or not isinstance(x, float):
        return False
    rep = repr(x)
    if "e" in rep:
        return True
    digits = rep.replace("-", "").replace(".", "").strip("0")
    return len(digits) > 6


def check_roundtrip(case) -> Result:
    m = [float(v) if not isinstance(v, int) else v for v in case["m"]]
    r = Result()
    if not _finite(m):
        r.rejected = "non-finite"
        return r
    T = Affine2D(*m)
    txt = _roundtrip(r, T, "Affine2D")
    cls = ["roundtrip"]
    if txt is not None:
        cls.append("prints:" + txt.split("(")[0])
        r.nontrivial = txt.startswith("matrix") and any(_needs_digits(v) for v in m)
    if any(isinstance(v, float) and v == 0 and math.copysign(1, v) < 0 for v in m):
        cls.append("has -0.0")
    if any(v != 0 and abs(v) < 2.3e-308 for v in m):
        cls.append("has subnormal")
    if any(abs(v) >= 2.0**53 for v in m):
        cls.append("has >=2**53")
    if any(isinstance(v, float) and "e" in repr(v) for v in m):
        cls.append("has exponent repr")
    if any(isinstance(v, float) and len(repr(v).replace("-", "").replace(".", "").strip("0")) >= 16 and "e" not in repr(v) for v in m):
        cls.append("has 16-17 digit repr")
    r.classes = tuple(cls)
    return r


# ------------------------------------------------------------------ compose_ltr


def check_compose(case) -> Result:
    r = Result()
    ms = [tuple(_num(v) for v in m) for m in case["ms"]]
    p = tuple(_num(v) for v in case["p"])
    exact = all(isinstance(v, (Fraction, int)) for m in ms for v in m) and all(isinstance(v, (Fraction, int)) for v in p)
    affs = [Affine2D(*m) for m in ms]
    seq = affs if case.get("as", "list") == "list" else tuple(affs)
    # reference: map through the first, then the second, ...
    q = tuple(_exact(v) for v in p)
    qb = tuple(abs(v) for v in q)
    for m in ms:
        me = tuple(_exact(v) for v in m)
        q = ref.apply(me, q)
        qb = ref.apply(ref.absm(me), qb)
    noncommuting = any(ref.mul(tuple(map(_exact, ms[i])), tuple(map(_exact, ms[j]))) != ref.mul(tuple(map(_exact, ms[j])), tuple(map(_exact, ms[i]))) for i in range(len(ms)) for j in range(i + 1, len(ms)))
    r.nontrivial = noncommuting
    r.classes = ("compose", f"compose:n={len(ms)}", "compose:exact" if exact else "compose:float", "compose:non-commuting" if noncommuting else "compose:commuting")
    try:
        T = Affine2D.compose_ltr(seq)
        got = T.map_point(p)
    except Exception as e:
        r.bad("compose-raises", f"compose_ltr({ms}).map_point({p}) raised {type(e).__name__}: {e}")
        return r
    tol = [F(0), F(0)] if exact else [F(1, 10**12) * b + TINY for b in qb]
    if not all(_close(g, w, t) for g, w, t in zip(got, q, tol)):
        r.bad(
            "compose-order",
            f"compose_ltr({[_fmt(m) for m in ms]}).map_point({_fmt(p)}) = {_fmt(tuple(got))} but mapping the point through the first, then the next ... gives {_fmt(q)}",
        )
        return r
    # the merged matrix is the product in REVERSE listed order
    want = ref.product([tuple(map(_exact, m)) for m in reversed(ms)])
    wb = ref.product([ref.absm(tuple(map(_exact, m))) for m in reversed(ms)])
    for g, w, b in zip(T, want, wb):
        if not _close(g, w, F(0) if exact else F(1, 10**12) * b + TINY):
            r.bad("compose-order", f"compose_ltr({[_fmt(m) for m in ms]}) = {_fmt(tuple(T))}, expected {_fmt(want)}")
            break
    return r


# ------------------------------------------------------------------ algebra


def check_algebra(case) -> Result:
    r = Result()
    A, B, C = (tuple(_num(v) for v in case[k]) for k in "ABC")
    p = tuple(_num(v) for v in case["p"])
    t = tuple(_num(v) for v in case["t"])  # translate / scale arguments
    exact = all(isinstance(v, (Fraction, int)) for m in (A, B, C, p, t) for v in m)
    Ae, Be, Ce = (tuple(map(_exact, m)) for m in (A, B, C))
    pe, te = tuple(map(_exact, p)), tuple(map(_exact, t))
    rel = F(0) if exact else F(1, 10**12)

    def tolm(*ms):
        if exact:
            return (F(0),) * 6
        return tuple(rel * b + TINY for b in ref.product([ref.absm(m) for m in ms]))

    def same(got, want, tol):
        return len(got) == len(want) and all(_close(g, w, t_) for g, w, t_ in zip(got, want, tol))

    dA = ref.det(Ae)
    noncomm = ref.mul(Ae, Be) != ref.mul(Be, Ae)
    r.nontrivial = noncomm
    cls = ["algebra", "algebra:exact" if exact else "algebra:float", "algebra:non-commuting" if noncomm else "algebra:commuting"]
    if dA == 0:
        cls.append("det:zero")
    elif abs(dA) <= EPS:
        cls.append("det:within-epsilon")
    elif abs(dA) < F(1, 10**6):
        cls.append("det:tiny-negative" if dA < 0 else "det:tiny-positive")
    else:
        cls.append("det:negative" if dA < 0 else "det:positive")
    r.classes = tuple(cls)

    a, b, c = Affine2D(*A), Affine2D(*B), Affine2D(*C)
    I = Affine2D.identity()
    try:
        # product
        ab = a @ b
        if not same(ab, ref.mul(Ae, Be), tolm(Ae, Be)):
            r.bad("matmul", f"{_fmt(A)} @ {_fmt(B)} = {_fmt(tuple(ab))}, the matrix product is {_fmt(ref.mul(Ae, Be))}")
            return r
        if not same(a.matrix(*B), ref.mul(Ae, Be), tolm(Ae, Be)):
            r.bad("matmul", f"{_fmt(A)}.matrix(*{_fmt(B)}) = {_fmt(tuple(a.matrix(*B)))}, expected {_fmt(ref.mul(Ae, Be))}")
            return r
        # associativity, identity (against the reference product, and as a law of the library alone)
        want_abc = ref.product([Ae, Be, Ce])
        l, rr = (a @ b) @ c, a @ (b @ c)
        if not same(l, want_abc, tolm(Ae, Be, Ce)) or not same(rr, want_abc, tolm(Ae, Be, Ce)) or (exact and l != rr):
            r.bad("associativity", f"(A@B)@C = {_fmt(tuple(l))}, A@(B@C) = {_fmt(tuple(rr))}, expected {_fmt(want_abc)} for A={_fmt(A)} B={_fmt(B)} C={_fmt(C)}")
            return r
        if not (a @ I == a and I @ a == a):
            r.bad("identity", f"A@I = {_fmt(tuple(a @ I))}, I@A = {_fmt(tuple(I @ a))} for A={_fmt(A)}")
            return r
        # translate / scale builders post-multiply
        T1 = (F(1), F(0), F(0), F(1), te[0], te[1])
        T0 = (F(1), F(0), F(0), F(1), te[0], F(0))
        S2 = (te[0], F(0), F(0), te[1], F(0), F(0))
        S1 = (te[0], F(0), F(0), te[0], F(0), F(0))
        for name, got, m in (
            (f"translate({t[0]}, {t[1]})", a.translate(t[0], t[1]), T1),
            (f"translate({t[0]})", a.translate(t[0]), T0),
            (f"scale({t[0]}, {t[1]})", a.scale(t[0], t[1]), S2),
            (f"scale({t[0]})", a.scale(t[0]), S1),
        ):
            if not same(got, ref.mul(Ae, m), tolm(Ae, m)):
                r.bad("builders", f"{_fmt(A)}.{name} = {_fmt(tuple(got))}, expected A x M = {_fmt(ref.mul(Ae, m))}")
                return r
        # mapping: (A@B)(p) = A(B(p)); vectors ignore the translation
        want_p = ref.apply(Ae, ref.apply(Be, pe))
        tol_p = (F(0), F(0)) if exact else tuple(rel * v + TINY for v in ref.apply(ref.mul(ref.absm(Ae), ref.absm(Be)), tuple(map(abs, pe))))
        g1 = ab.map_point(p)
        g2 = a.map_point(b.map_point(p))
        if not same(g1, want_p, tol_p) or not same(g2, want_p, tol_p):
            r.bad("map-point", f"(A@B).map_point(p) = {_fmt(tuple(g1))}, A.map_point(B.map_point(p)) = {_fmt(tuple(g2))}, expected {_fmt(want_p)}; A={_fmt(A)} B={_fmt(B)} p={_fmt(p)}")
            return r
        want_v = ref.apply_linear(Ae, pe)
        tol_v = (F(0), F(0)) if exact else tuple(rel * v + TINY for v in ref.apply_linear(ref.absm(Ae), tuple(map(abs, pe))))
        gv = a.map_vector(p)
        if not same(gv, want_v, tol_v):
            r.bad("map-vector", f"{_fmt(A)}.map_vector({_fmt(p)}) = {_fmt(tuple(gv))}, expected {_fmt(want_v)}")
            return r
        # determinant, multiplicativity, degeneracy predicate
        tol_d = F(0) if exact else rel * (abs(Ae[0] * Ae[3]) + abs(Ae[1] * Ae[2])) + TINY
        if not _close(a.determinant(), dA, tol_d):
            r.bad("determinant", f"{_fmt(A)}.determinant() = {a.determinant()}, expected {dA}")
            return r
        if exact:
            if ab.determinant() != a.determinant() * b.determinant():
                r.bad("determinant", f"det(A@B) = {ab.determinant()} != det A * det B = {a.determinant() * b.determinant()}; A={_fmt(A)} B={_fmt(B)}")
                return r
            if a.is_degenerate() != (abs(dA) <= EPS):
                r.bad("determinant", f"{_fmt(A)}.is_degenerate() = {a.is_degenerate()} with determinant {float(dA)}")
                return r
        # inverse
        if exact:
            if abs(dA) > EPS:
                inv = a.inverse()
                want_inv = ref.inverse(Ae)
                if tuple(inv) != want_inv or not (a @ inv == I) or not (inv @ a == I):
                    r.bad("inverse", f"{_fmt(A)}.inverse() = {_fmt(tuple(inv))} (det {float(dA)}); A@inv = {_fmt(tuple(a @ inv))}, expected inverse {_fmt(want_inv)}")
                    return r
                back = inv.map_point(a.map_point(p))
                if tuple(back) != pe:
                    r.bad("inverse", f"inverse().map_point(map_point(p)) = {_fmt(tuple(back))} != p = {_fmt(p)} for {_fmt(A)}")
                    return r
        else:
            mag = abs(Ae[0] * Ae[3]) + abs(Ae[1] * Ae[2])
            if dA != 0 and abs(dA) > EPS * 4 and mag / abs(dA) <= 10**4 and _finite([float(mag)]):
                inv = a.inverse()
                want_inv = ref.inverse(Ae)
                ia, ib, ic, id_ = (abs(v) for v in want_inv[:4])
                bnd = (ia, ib, ic, id_, ia * abs(Ae[4]) + ic * abs(Ae[5]), ib * abs(Ae[4]) + id_ * abs(Ae[5]))
                if not same(inv, want_inv, tuple(REL * v + TINY for v in bnd)):
                    r.bad("inverse", f"{_fmt(A)}.inverse() = {_fmt(tuple(inv))} (det {float(dA)}), expected {_fmt(want_inv)}")
                    return r
                r.classes += ("inverse:float-compared",)
    except Exception as e:
        r.bad("algebra-raises", f"{type(e).__name__}: {e} for A={_fmt(A)} B={_fmt(B)} C={_fmt(C)} p={_fmt(p)} t={_fmt(t)}")
    return r


# ------------------------------------------------------------------ rect_to_rect


def check_rect(case) -> Result:
    r = Result()
    src = tuple(_num(v) for v in case["src"])
    dst = tuple(_num(v) for v in case["dst"])
    align, mos = case["align"], case.get("mos")
    exact = all(isinstance(v, (Fraction, int)) for v in src + dst)
    se, de = tuple(map(_exact, src)), tuple(map(_exact, dst))
    if se[2] <= 0 or se[3] <= 0 or de[2] <= 0 or de[3] <= 0:
        r.rejected = "empty-or-negative-rect"
        return r
    eff_align = "none" if align is None else align
    sx, sy = ref.viewport_scales(se, de, eff_align, mos)
    aspect_differs = de[2] * se[3] != de[3] * se[2]
    r.nontrivial = aspect_differs and eff_align != "none"
    r.classes = (
        "rect",
        "rect:exact" if exact else "rect:float",
        "align:" + ("default-arg" if align is None else align),
        "mos:" + (mos or "absent"),
        "rect:aspect-differs" if aspect_differs else "rect:same-aspect",
        "rect:dst-square" if de[2] == de[3] else "rect:dst-not-square",
    ) + (("rect:tiny-side",) if min(se[2], se[3], de[2], de[3]) <= Fraction(1, 10**9) else ())
    desc = f"rect_to_rect(src={_fmt(src)}, dst={_fmt(dst)}, {None if align is None else (align + (' ' + mos if mos else ''))!r})"
    try:
        if align is None:
            T = Affine2D.rect_to_rect(Rect(*src), Rect(*dst))
        else:
            T = Affine2D.rect_to_rect(Rect(*src), Rect(*dst), align + (" " + mos if mos else ""))
    except Exception as e:
        r.bad("rect-raises", f"{desc} raised {type(e).__name__}: {e}")
        return r
    if not _finite(T):
        r.bad("rect-scale", f"{desc} = {_fmt(tuple(T))} is not finite")
        return r
    a, b, c, d, e, f = (_exact(v) for v in T)
    rel = F(0) if exact else REL
    if b != 0 or c != 0:
        r.bad("rect-scale", f"{desc} = {_fmt(tuple(T))} is not a scale + translation")
        return r
    if abs(a - sx) > rel * sx or abs(d - sy) > rel * sy:
        r.bad("rect-scale", f"{desc} = {_fmt(tuple(T))}: scale must be ({float(sx)}, {float(sy)}) (ratios {float(de[2] / se[2])}, {float(de[3] / se[3])})")
        return r
    # image of the source box under the returned matrix (exact arithmetic on the returned numbers)
    for axis, (s0, sl, d0, dl, k, t) in {"x": (se[0], se[2], de[0], de[2], a, e), "y": (se[1], se[3], de[1], de[3], d, f)}.items():
        lo, hi = k * s0 + t, k * (s0 + sl) + t
        tol = rel * (abs(d0) + dl + abs(k) * (abs(s0) + sl))
        if eff_align == "none":
            mode = "Min+Max"
        else:
            i = eff_align.index("x" if axis == "x" else "Y")
            mode = eff_align[i + 1 : i + 4]
        ok = True
        if "Min" in mode:
            ok &= abs(lo - d0) <= tol
        if "Max" in mode:
            ok &= abs(hi - (d0 + dl)) <= tol
        if mode == "Mid":
            ok &= abs((lo + hi) / 2 - (d0 + dl / 2)) <= tol
        if not ok:
            r.bad("rect-align", f"{desc} = {_fmt(tuple(T))}: {axis}-extent of the source maps to [{float(lo)}, {float(hi)}], destination is [{float(d0)}, {float(d0 + dl)}], alignment {mode}")
            return r
        if eff_align != "none":
            if mos == "slice":
                if lo > d0 + tol or hi < d0 + dl - tol:
                    r.bad("rect-fit", f"{desc}: slice must cover the destination; {axis}-extent maps to [{float(lo)}, {float(hi)}], destination [{float(d0)}, {float(d0 + dl)}]")
                    return r
            else:
                if lo < d0 - tol or hi > d0 + dl + tol:
                    r.bad("rect-fit", f"{desc}: meet must stay inside the destination; {axis}-extent maps to [{float(lo)}, {float(hi)}], destination [{float(d0)}, {float(d0 + dl)}]")
                    return r
    return r


# ------------------------------------------------------------------ decompositions

DECOMP_TOL = F(1, 10**4)


def _singular_values(a, b, c, d):
    s1 = a * a + b * b + c * c + d * d
    s2 = math.sqrt(max(0.0, (a * a + b * b - c * c - d * d) ** 2 + 4 * (a * c + b * d) ** 2))
    return math.sqrt((s1 + s2) / 2), math.sqrt(max(0.0, (s1 - s2) / 2))


def check_decompose(case) -> Result:
    r = Result()
    m = tuple(float(v) for v in case["m"])
    if not _finite(m):
        r.rejected = "non-finite"
        return r
    a, b, c, d, e, f = m
    smax, smin = _singular_values(a, b, c, d)
    if not (smin >= 1e-3 and smax <= 1e3 and abs(e) <= 1e4 and abs(f) <= 1e4):
        r.rejected = "fenced:ill-conditioned"
        return r
    T = Affine2D(*m)
    me = tuple(map(F, m))
    cls = ["decompose"]
    cls.append("decompose:a~0" if abs(a) <= 1e-9 else "decompose:a!=0")
    cls.append("decompose:with-translation" if (e, f) != (0, 0) else "decompose:no-translation")
    cls.append("decompose:det<0" if a * d - b * c < 0 else "decompose:det>0")
    r.classes = tuple(cls)
    r.nontrivial = (e, f) != (0, 0) and (b != 0 or c != 0)
    p = (F(3), F(-7))
    wantp = ref.apply(me, p)
    for which in ("scale", "translation"):
        try:
            parts = T.decompose_scale() if which == "scale" else T.decompose_translation()
        except Exception as ex:
            r.bad("decompose-raises", f"Affine2D{m}.decompose_{which}() raised {type(ex).__name__}: {ex}")
            continue
        if len(parts) != 2 or not all(_finite(q) for q in parts):
            r.bad("decompose-shape", f"Affine2D{m}.decompose_{which}() = {parts}")
            continue
        first, second = (tuple(map(F, q)) for q in parts)
        if which == "scale":
            shape_ok = first[1] == 0 and first[2] == 0 and first[4] == 0 and first[5] == 0 and first[0] > 0 and first[3] > 0
        else:
            shape_ok = first[:4] == (1, 0, 0, 1) and second[4] == 0 and second[5] == 0
        if not shape_ok:
            r.bad("decompose-shape", f"Affine2D{m}.decompose_{which}() = {parts}: first part is not a pure {which}")
            continue
        # left-to-right: the point goes through `first` first -> matrix second x first
        recomposed = ref.mul(second, first)
        if any(abs(g - w) > DECOMP_TOL for g, w in zip(recomposed, me)):
            r.bad("decompose-recompose", f"Affine2D{m}.decompose_{which}() = {parts} recomposes (left to right) to {_fmt(recomposed)}")
            continue
        gp = ref.apply(second, ref.apply(first, p))
        slack = DECOMP_TOL * (abs(p[0]) + abs(p[1]) + 1)
        if any(abs(g - w) > slack for g, w in zip(gp, wantp)):
            r.bad("decompose-recompose", f"mapping {_fmt(p)} through the parts of Affine2D{m}.decompose_{which}() gives {_fmt(gp)}, the original maps it to {_fmt(wantp)}")
    return r


# ------------------------------------------------------------------ generators

_ARG_SEPS = [" ", " ", ",", ",", ", ", " ,", " , ", "  ", "\t", "\n", "\r\n", "\t,\n", ",\t", " \n "]
_OP_SEPS = ["", " ", " ", ",", ", ", " , ", "\n", "\t", ",,", " , , ", "  "]
_WSP0 = ["", "", "", " ", "  ", "\t", "\n", "\r\n"]


class _Dec:
    """Deterministic decoder of a Hypothesis-drawn byte string into choices (one draw per case keeps the
    generator fast; all randomness still comes from Hypothesis).  Exhausted input yields zeros = first choices."""

    def __init__(self, data: bytes):
        self.d, self.i = data, 0

    def below(self, n: int) -> int:
        k = 1 if n <= 256 else (2 if n <= 65536 else 4)
        chunk = self.d[self.i : self.i + k]
        self.i += k
        return int.from_bytes(chunk, "big") % n if chunk else 0

    def int(self, lo: int, hi: int) -> int:
        return lo + self.below(hi - lo + 1)

    def choice(self, seq):
        return seq[self.below(len(seq))]

    def bool(self) -> bool:
        return bool(self.below(2))


_SPECIAL_NUMBERS = {
    "generic": ["0", "1", "-1", "2", "0.5", "10", "100", "-0", "1e0", "1E2", "+3", "007", ".5", "5.", "-.25", "2.e1", "1.5e-1", "25E-1"],
    "angle": ["0", "30", "45", "90", "-90", "180", "270", "360", "450", "-720", "33.3", "1e1", "4.5E1", "+60", "090", "12.", ".5", "-.5e2", "1234.5"],
    "skew": ["0", "30", "45", "-45", "60", "180", "200", "360", "405", "-30", "33.3", "1e1", "4.5E1", "+60", "010", "12.", ".5", "-.5e2", "1234.5"],
    "scale": ["1", "-1", "2", "0.5", "-2", "3", "1e1", ".25", "4.", "1.5", "+2", "02", "0", "1E-1"],
}


def _number(d: _Dec, kind="generic") -> str:
    """a number token in one of the grammar's spellings; |value| < 1e5 (1e4 for angles and scales)"""
    if d.below(10) < 4:
        return d.choice(_SPECIAL_NUMBERS[kind])
    sign = d.choice(["", "", "-", "-", "+"])
    form = d.choice(["int", "dec", "dec", "ldot", "tdot", "exp", "exp"])
    ip = str(d.below(1000))
    if d.below(8) == 0:
        ip = "0" + ip
    fp = "".join(str(d.below(10)) for _ in range(d.int(1, 4)))
    if form == "int":
        body = ip
    elif form == "dec":
        body = ip + "." + fp
    elif form == "ldot":
        body = "." + fp
    elif form == "tdot":
        body = ip + "."
    else:
        mant = d.choice([ip, ip + "." + fp, "." + fp, ip + "."])
        ex = d.int(-3, 1 if kind != "generic" else 2)
        e = d.choice("eE")
        if ex < 0:
            body = mant + e + d.choice(["-", "-0"]) + str(-ex)
        else:
            body = mant + e + d.choice(["", "+", "0"]) + str(ex)
    tok = sign + body
    if kind == "skew" and ref.pole_distance_deg(float(tok)) < 2.0:
        tok = d.choice(["20", "-35.5", "1.5e1"])
    return tok


_OP_WEIGHTED = ["matrix", "translate", "translate", "scale", "scale", "rotate", "rotate", "rotate", "skewX", "skewX", "skewY", "skewY"]
_ARG_KINDS = {"rotate": ["angle", "generic", "generic"], "skewX": ["skew"], "skewY": ["skew"], "scale": ["scale", "scale"]}


def _decode_transform(data: bytes):
    d = _Dec(data)
    n = d.choice([1, 2, 2, 3, 3, 4, 5])
    p = [d.choice([1, -2, 3.5, 10, 0.25, -7]), d.choice([1, 5, -1.5, 100, 0.75, -3])]
    out = [d.choice(_WSP0)]
    for i in range(n):
        if i:
            out.append(d.choice(_OP_SEPS))
        op = d.choice(_OP_WEIGHTED)
        argc = d.choice(ref.ARGC[op])
        out += [op, d.choice(["", "", "", " ", "\t", "\n "]), "(", d.choice(_WSP0)]
        kinds = _ARG_KINDS.get(op, ["generic"] * 6)
        for j in range(argc):
            if j:
                out.append(d.choice(_ARG_SEPS))
            out.append(_number(d, kinds[j]))
        out += [d.choice(_WSP0), ")"]
    out.append(d.choice(_WSP0))
    return {"s": "".join(out), "p": p}


def transform_string():
    return st.binary(min_size=600, max_size=600).map(_decode_transform)


_Q_SPECIAL = [F(0), F(1), F(-1), F(1, 2), F(2)]


def _rational(d: _Dec) -> Fraction:
    k = d.below(8)
    if k < 4:
        return F(d.int(-30, 30), d.int(1, 12))
    if k < 7:
        return F(d.int(-(10**6), 10**6), d.int(1, 1000))
    return d.choice(_Q_SPECIAL)


_F_SPECIAL = [0.0, 1.0, -1.0, 0.5, 0.1, 1 / 3, 2.0, 1e-3, 123.456]


def _fl(d: _Dec) -> float:
    k = d.below(8)
    if k < 5:
        return d.int(-(10**6), 10**6) / d.choice([1000.0, 1024.0, 7000.0, 3.0, 1e4, 997.0])
    if k < 7:
        return float(d.int(-20, 20))
    return d.choice(_F_SPECIAL)


_DET_KINDS = ["any", "any", "any", "negative", "tiny", "tiny-negative", "within-eps", "zero", "flip", "structured"]
_FLIPS = [(1, 0, 0, -1), (-1, 0, 0, 1), (0, 1, 1, 0), (-1, 0, 0, -1), (0, -1, 1, 0), (2, 0, 0, -3)]


def _qmatrix(d: _Dec, det_class=None):
    """rational 6-tuple, with determinant classes produced on purpose"""
    kind = det_class or d.choice(_DET_KINDS)
    a, b, c, dd, e, f = (_rational(d) for _ in range(6))
    if kind == "negative":
        if a * dd - b * c > 0:
            a, c = -a, -c
    elif kind in ("tiny", "tiny-negative", "within-eps"):
        # choose d so that the determinant is a prescribed small number
        if a == 0:
            a = F(3)
        if kind == "within-eps":
            target = F(d.choice([1, -1, 2, -2]), 10**16)
        else:
            target = F(d.choice([1, 3, 7]), 10 ** d.int(7, 16)) * (1 if kind == "tiny" else -1)
        dd = (target + b * c) / a
    elif kind == "zero":
        k = _rational(d)
        c, dd = k * a, k * b
    elif kind == "flip":
        a, b, c, dd = (F(v) for v in d.choice(_FLIPS))
    elif kind == "structured":
        which = d.choice(["translate", "scale", "identity", "shear"])
        if which == "translate":
            a, b, c, dd = F(1), F(0), F(0), F(1)
        elif which == "scale":
            b, c, e, f = F(0), F(0), F(0), F(0)
        elif which == "identity":
            a, b, c, dd, e, f = F(1), F(0), F(0), F(1), F(0), F(0)
        else:
            a, b, dd = F(1), F(0), F(1)
    return [a, b, c, dd, e, f]


def _decode_algebra(data: bytes):
    d = _Dec(data)
    exact = d.choice([True, True, False])
    if exact:
        A, B, C = _qmatrix(d), _qmatrix(d, "any"), _qmatrix(d, "any")
        p = [_rational(d), _rational(d)]
        t = [_rational(d), _rational(d)]
        if d.below(6) == 0:
            t = [F(0), F(0)]
        enc = lambda m: [_enc(v) for v in m]
        return {"A": enc(A), "B": enc(B), "C": enc(C), "p": enc(p), "t": enc(t)}
    A, B, C = ([_fl(d) for _ in range(6)] for _ in range(3))
    if d.below(4) == 0 and A[0] * A[3] - A[1] * A[2] > 0:
        A[0], A[2] = -A[0], -A[2]
    return {"A": A, "B": B, "C": C, "p": [_fl(d), _fl(d)], "t": [_fl(d), _fl(d)]}


def algebra_case():
    return st.binary(min_size=256, max_size=256).map(_decode_algebra)


def _decode_compose(data: bytes):
    d = _Dec(data)
    exact = d.choice([True, True, True, False])
    n = d.choice([1, 2, 2, 2, 3, 3, 4, 5])
    how = d.choice(["list", "tuple"])
    if exact:
        ms = [[_enc(v) for v in _qmatrix(d, d.choice(["any", "any", "structured", "flip"]))] for _ in range(n)]
        p = [_enc(_rational(d)), _enc(_rational(d))]
    else:
        ms = [[_fl(d) for _ in range(6)] for _ in range(n)]
        p = [_fl(d), _fl(d)]
    return {"ms": ms, "p": p, "as": how}


def compose_case():
    return st.binary(min_size=330, max_size=330).map(_decode_compose)


_RT_SPECIAL = [0.0, -0.0, 1.0, -1.0, 5e-324, -5e-324, 2.2250738585072014e-308, 2.225073858507201e-308, 1.7976931348623157e308, -1.7976931348623157e308, 1e16, 1e-7, 123456789.12345679, 2.0**53, 2.0**53 + 2, 1e22, 1e23, 0.1, 1 / 3, 1234567.0, 0.30000000000000004, 100000.5, 1e-5, 0.0001, 1e21, 9007199254740993.0, 4.35, 0.000123456789]


def _anyfloat(d: _Dec, small=False) -> float:
    k = d.below(10) if not small else 5 + d.below(3)
    raw = bytes(d.below(256) for _ in range(8))
    if k < 3:  # arbitrary bit pattern: every exponent, full 53-bit significands
        x = struct.unpack(">d", raw)[0]
        if not math.isfinite(x):
            x = struct.unpack(">d", bytes([raw[0] & 0xBF]) + raw[1:])[0]
        return x
    if k == 3:  # single precision values widened
        x = struct.unpack(">f", raw[:4])[0]
        return float(x) if math.isfinite(x) else 1.5
    if k == 4:  # subnormal / tiny / huge on purpose
        sig = int.from_bytes(raw[1:], "big") & ((1 << 52) - 1)
        e = d.choice([0, 0, 1, 2046, 2045, 1023 + 52, 1023 + 53, 1023 + 60, 1023 - 30])
        x = struct.unpack(">d", (((raw[0] >> 7) << 63) | (e << 52) | sig).to_bytes(8, "big"))[0]
        return x
    if k == 5:
        return d.int(-(10**7), 10**7) / d.choice([1000.0, 100.0, 7.0, 1e5, 3.0])
    if k == 6:
        return float(d.int(-100, 100))
    if k == 7:
        return float(d.int(-(2**60), 2**60))
    if k == 8:
        return int.from_bytes(raw[:4], "big") / 2.0**32 * d.choice([1, -1, 2, 1e-3])
    return d.choice(_RT_SPECIAL)


def _decode_roundtrip(data: bytes):
    d = _Dec(data)
    kind = d.choice(["any", "any", "any", "translate", "near-translate", "smallish"])
    m = [_anyfloat(d, small=(kind == "smallish")) for _ in range(6)]
    if kind == "translate":
        m[:4] = [1.0, 0.0, 0.0, 1.0]
    elif kind == "near-translate":
        m[:4] = [1.0, 0.0, 0.0, 1.0]
        m[d.below(4)] = d.choice([1.0000000000000002, 0.9999999999999999, 5e-324, -5e-324, 1e-17, 1.0000001, -0.0, -1.0])
    return {"m": m}


def roundtrip_case():
    return st.binary(min_size=150, max_size=150).map(_decode_roundtrip)


_ALIGN_NAMES = list(ref.ALIGNS)


def _decode_rect(data: bytes):
    d = _Dec(data)
    exact = d.bool()
    if exact:
        pos = lambda: F(0) if d.below(6) == 0 else F(d.int(-200, 200), d.int(1, 8))
        # every non-empty rectangle: also sides far below any "almost zero" tolerance (1e-9 .. 1e-15)
        size = lambda: F(d.int(1, 400), d.int(1, 16)) if d.below(8) else F(d.int(1, 9), 10 ** d.int(6, 15))
        enc = _enc
    else:
        pos = lambda: d.choice([0.0, float(d.int(-100, 100)), d.int(-(10**7), 10**7) / 1000.0, d.int(-(10**7), 10**7) / 997.0])
        size = lambda: d.choice([float(d.int(1, 1000)), 10.0 ** (d.int(-2000, 4000) / 1000.0), d.int(1, 10**6) / 7.0, float(d.int(1, 1000)), 10.0 ** (d.int(-15000, -2000) / 1000.0)])
        enc = lambda v: v
    src = [pos(), pos(), size(), size()]
    dst = [pos(), pos(), size(), size()]
    shape = d.choice(["free", "free", "free", "same-aspect", "dst-square", "src-square", "wide-to-tall"])
    if shape == "same-aspect":
        k = size()
        dst[2], dst[3] = src[2] * k, src[3] * k
    elif shape == "dst-square":
        dst[3] = dst[2]
    elif shape == "src-square":
        src[3] = src[2]
    elif shape == "wide-to-tall":
        src[2], src[3] = max(src[2], src[3]) * 2, min(src[2], src[3])
        dst[2], dst[3] = min(dst[2], dst[3]), max(dst[2], dst[3]) * 2
    align = d.choice(_ALIGN_NAMES + _ALIGN_NAMES[1:] + [None])
    mos = d.choice(["meet", "slice", "slice", None])
    if align is None:
        mos = None
    return {"src": [enc(v) for v in src], "dst": [enc(v) for v in dst], "align": align, "mos": mos}


def rect_case():
    return st.binary(min_size=128, max_size=128).map(_decode_rect)


_DEC_ANGLES = [0.0, 90.0, -90.0, 180.0, 270.0, 45.0, 30.0, 89.99999, 90.0000001, 90.00000001, 269.9999999, 1e-7]


def _decode_decompose(data: bytes):
    d = _Dec(data)
    ang = d.choice(_DEC_ANGLES) if d.below(3) == 0 else d.int(-360000, 360000) / 1000.0
    lg = lambda: d.choice([1.0, 2.0, 0.5, 10.0 ** (d.int(-2000, 2000) / 1000.0), 10.0 ** (d.int(-2000, 2000) / 1000.0)])
    sx = lg() * d.choice([1, 1, -1])
    sy = lg() * d.choice([1, 1, -1])
    k = d.choice([0.0, 0.0, d.int(-2000, 2000) / 1000.0])
    th = math.radians(ang)
    co, si = math.cos(th), math.sin(th)
    if d.bool() and ang % 90 == 0:
        co, si = float(round(co)), float(round(si))  # exact quarter turns (a == 0 exactly)
    # M = R(th) x skewX(k) x S
    a, b = co * sx, si * sx
    c, dd = (co * k - si) * sy, (si * k + co) * sy
    tr = lambda: d.choice([0.0, float(d.int(-100, 100)), d.int(-(10**7), 10**7) / 1000.0, d.int(-(10**7), 10**7) / 1000.0])
    e, f = tr(), tr()
    if d.below(8) == 0:
        e = f = 0.0
    return {"m": [a, b, c, dd, e, f]}


def decompose_case():
    return st.binary(min_size=96, max_size=96).map(_decode_decompose)


SUBCHECKS = {
    "parse": Sub("parse", check_parse, strategy=lambda ctx: transform_string(), examples={"quick": 3500, "thorough": 30000}, describe=lambda c: c),
    "compose": Sub("compose", check_compose, strategy=lambda ctx: compose_case(), examples={"quick": 2000, "thorough": 20000}),
    "algebra": Sub("algebra", check_algebra, strategy=lambda ctx: algebra_case(), examples={"quick": 2000, "thorough": 16000}),
    "roundtrip": Sub("roundtrip", check_roundtrip, strategy=lambda ctx: roundtrip_case(), examples={"quick": 3000, "thorough": 40000}),
    "rect": Sub("rect", check_rect, strategy=lambda ctx: rect_case(), examples={"quick": 4000, "thorough": 40000}),
    "decompose": Sub("decompose", check_decompose, strategy=lambda ctx: decompose_case(), examples={"quick": 3000, "thorough": 30000}),
}
