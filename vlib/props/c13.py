"""C13 - boolean path operations compute the set operation under each operand's fill rule."""
from __future__ import annotations

import math

import numpy as np
from hypothesis import strategies as st

from vlib.run import Result, Sub
from vlib.refsvg import geom

from picosvg import svg_pathops
from picosvg.svg_types import SVGPath, union as t_union, intersection as t_intersection, difference as t_difference

ID = "C13"
RULE = (
    "Hypothesis draws 1-4 operand paths in a 100x100 frame (convex polygons, pentagrams, rings with same/opposite "
    "contour direction, random self-intersecting polygons, bow-ties and opposite-wound pairs whose signed areas cancel exactly, open polylines, circles/ellipses as cubics, paths with tame "
    "quads/cubics; continuous coordinates), a fill rule per operand and an operation among union, intersection, "
    "difference (left fold), remove_overlaps, through picosvg.svg_pathops.* (explicit rules) and through the "
    "shape-level wrappers in svg_types (rules from clip_rule / explicit fill_rules). Oracle: own winding-number "
    "evaluation of every operand under its rule, combined by the set operation; the result path must contain exactly "
    "those points under BOTH nonzero and evenodd filling, at ~350 sample points (Halton + points 2/4 epsilon off "
    "operand and result edges) farther than epsilon=0.4 from every operand/result edge. pathops.PathOpsError = engine "
    "refused = allowed; conversely, when skia-pathops itself (called directly) raises PathOpsError for the operation, picosvg must raise too (a pool of 40 engine-refused paths found by an offline search is mixed into the operands). A mismatch on curved operands that disappears when the same operands are flattened "
    "to polygons is attributed to the engine (known finding ENGINE). Non-trivial = expected region and its complement "
    "both sampled and some operand has a point where nonzero != evenodd; distinct = distinct operand tuple."
)
ASSUMPTIONS = ["vlib/refsvg/geom.py winding/flattening (self-tested)", "generic position: coordinates are drawn with 2 decimals from a continuous range, coincident edges are improbable but not excluded"]

EPS = 0.4


def _cmds_to_subs(cmds):
    return geom.interpret([(c, tuple(a)) for c, a in cmds])


def _edges(cmds, tol=0.01):
    subs = _cmds_to_subs(cmds)
    return geom.edges_of(geom.flatten(subs, tol), close=True)


def _polygonal(cmds, tol=0.02):
    subs = _cmds_to_subs(cmds)
    out = []
    for pts, closed, _ in geom.flatten(subs, tol):
        if len(pts) == 0:
            continue
        out.append(("M", (float(pts[0][0]), float(pts[0][1]))))
        for q in pts[1:]:
            out.append(("L", (float(q[0]), float(q[1]))))
        if closed:
            out.append(("Z", ()))
    return out


def _run_op(op, via, operands, rules):
    if via == "pathops":
        if op == "remove_overlaps":
            return list(svg_pathops.remove_overlaps(operands[0], rules[0]))
        fn = {"union": svg_pathops.union, "intersection": svg_pathops.intersection, "difference": svg_pathops.difference}[op]
        return list(fn(operands, rules))
    shapes = [SVGPath.from_commands(o) for o in operands]
    for s, ru in zip(shapes, rules):
        s.clip_rule = ru
        s.fill_rule = ru
    if op == "remove_overlaps":
        return list(shapes[0].remove_overlaps())
    if op == "union":
        return list(t_union(shapes))
    if op == "difference":
        return list(t_difference(shapes))
    if via == "types-explicit":
        # fill_rules given explicitly and different from the shapes' clip_rule attribute
        for s in shapes:
            s.clip_rule = "nonzero"
        return list(t_intersection(shapes, fill_rules=rules))
    return list(t_intersection(shapes))


def _direct_engine(op, operands, rules):
    """The same operation asked of skia-pathops directly (own construction of the engine paths from absolute
    M/L/Q/C/Z operands, no picosvg code involved) -> absolute command list."""
    import pathops

    FT = {"nonzero": pathops.FillType.WINDING, "evenodd": pathops.FillType.EVEN_ODD}
    FN = {"M": "moveTo", "L": "lineTo", "Q": "quadTo", "C": "cubicTo", "Z": "close"}
    paths = []
    for o, ru in zip(operands, rules):
        p = pathops.Path(fillType=FT[ru])
        for c, a in o:
            if c == "Z":
                p.close()
            else:
                getattr(p, FN[c])(*a)
        paths.append(p)
    if op == "remove_overlaps" or len(paths) == 1:
        acc = paths[0]
        acc.simplify(fix_winding=True)
    else:
        OP = {"union": pathops.PathOp.UNION, "intersection": pathops.PathOp.INTERSECTION, "difference": pathops.PathOp.DIFFERENCE}[op]
        acc = paths[0]
        for q in paths[1:]:
            acc = pathops.op(acc, q, OP, fix_winding=True)
    VN = {"moveTo": "M", "lineTo": "L", "qCurveTo": "Q", "curveTo": "C", "closePath": "Z", "endPath": None}
    out = []
    for verb, pts in acc.segments:
        c = VN[verb]
        if c is None:
            continue
        if c == "Q" and len(pts) != 2:
            raise ValueError("unexpected quadratic spline")
        out.append((c, tuple(float(v) for pt in pts for v in pt)))
    return out


def _evaluate(op, via, operands, rules, res=None):
    """returns (message or None, stats)"""
    if res is None:
        res = _run_op(op, via, operands, rules)
    op_edges = [_edges(o) for o in operands]
    rA, rB = _edges(res)
    # sample points
    pts = [(-10 + 120 * _halton(i, 2), -10 + 120 * _halton(i, 3)) for i in range(1, 161)]
    for A, B in op_edges + [(rA, rB)]:
        if len(A) == 0:
            continue
        L = np.hypot(*(B - A).T)
        good = np.nonzero(L > 1e-6)[0]
        if len(good) == 0:
            continue
        for j in good[np.linspace(0, len(good) - 1, num=min(10, len(good))).astype(int)]:
            mid = (A[j] + B[j]) / 2
            d = (B[j] - A[j]) / L[j]
            n = np.array([-d[1], d[0]])
            for k in (2.0, -2.0, 4.0, -4.0):
                pts.append(tuple(mid + n * k * EPS))
    P = np.array(pts)
    trusted = np.ones(len(P), dtype=bool)
    ins = []
    rule_sensitive = False
    for (A, B), ru in zip(op_edges, rules):
        trusted &= geom.dist_to_edges(P, A, B) > EPS
        w = geom.winding(P, A, B)
        ins.append((w % 2 != 0) if ru == "evenodd" else (w != 0))
        rule_sensitive |= bool((((w % 2) != 0) != (w != 0))[trusted].any())
    trusted &= geom.dist_to_edges(P, rA, rB) > EPS
    if op in ("union", "remove_overlaps"):
        exp = np.logical_or.reduce(ins)
    elif op == "intersection":
        exp = np.logical_and.reduce(ins)
    else:
        exp = ins[0].copy()
        for x in ins[1:]:
            exp &= ~x
    w = geom.winding(P, rA, rB)
    got_nz, got_eo = (w != 0), (w % 2 != 0)
    stats = {"trusted": int(trusted.sum()), "in": int((exp & trusted).sum()), "out": int((~exp & trusted).sum()), "rule_sensitive": rule_sensitive}
    bad = trusted & ((got_nz != exp) | (got_eo != exp))
    if bad.any():
        i = int(np.nonzero(bad)[0][0])
        return (
            f"{int(bad.sum())}/{stats['trusted']} points wrong, e.g. ({P[i][0]:.3f},{P[i][1]:.3f}): expected inside={bool(exp[i])}, result nonzero={bool(got_nz[i])} evenodd={bool(got_eo[i])}; result={res!r}"[:1500],
            stats,
        )
    return None, stats


def check_op(case) -> Result:
    r = Result()
    op, via = case["op"], case["via"]
    operands = [[(c, tuple(a)) for c, a in o] for o in case["operands"]]
    rules = case["rules"]
    kinds = case.get("kinds", [])
    r.classes = (op, via, f"n={len(operands)}") + tuple(sorted(set(kinds)))
    # neutraliser for known finding ENGINE-COINCIDENT: operands sharing an identical edge (e.g. the same
    # path twice) make skia-pathops return a wrong region; such tuples are counted and not judged
    if case.get("repeat_rule"):
        r.classes += ("same-outline-under-both-rules",)
    spelled = operands
    if any(c not in "MLQCZ" for o in operands for c, _ in o):
        # operands in free spelling (relative, H/V): helpers that talk to the engine directly get the absolute
        # polygonal form computed by the reference interpreter; picosvg gets the spelling as given
        operands = [_polygonal(o) if any(c not in "MLQCZ" for c, _ in o) else o for o in operands]
    if not case.get("pinned") and not case.get("repeat_rule") and _share_edge(operands):
        r.excluded = "ENGINE-COINCIDENT"
        r.rejected = "excluded:coincident-operand-edges"
        return r
    refuses = _engine_refuses(op, operands, rules)
    if refuses:
        r.classes += ("engine-refuses",)
    try:
        msg, stats = _evaluate(op, via, operands, rules, res=(_run_op(op, via, spelled, rules) if spelled is not operands else None))
    except svg_pathops.pathops.PathOpsError:
        r.nontrivial = True
        r.classes += ("PathOpsError-propagated",)
        return r
    except Exception as e:
        r.bad("raises", f"{op} via {via} raised {type(e).__name__}: {e}")
        return r
    if refuses:
        r.bad("engine-error-swallowed", f"skia-pathops raises PathOpsError for {op} of these operands, but {via} returned a path instead of raising; operands={operands!r} rules={rules}"[:2500])
        return r
    r.nontrivial = stats["in"] >= 3 and stats["out"] >= 3 and stats["rule_sensitive"]
    if stats["trusted"] < 30:
        r.rejected = "too-few-trusted-points"
        return r
    if msg:
        curved = any(c in "QC" for o in operands for c, _ in o)
        if curved and not case.get("pinned"):
            try:
                pm, _ = _evaluate(op, via, [_polygonal(o) for o in operands], rules)
            except Exception:
                pm = "x"
            if pm is None:
                # the polygonal twin is computed correctly, so curves are involved.  Engine or wrapper?  Ask the
                # engine directly, with paths built by this check: if its answer is right where picosvg's is
                # wrong, the wrapper (not skia-pathops) lost or altered something on the way
                try:
                    dm, _ = _evaluate(op, via, operands, rules, res=_direct_engine(op, operands, rules))
                except Exception:
                    dm = "x"
                if dm is not None:
                    r.excluded = "ENGINE"
                    return r
                r.classes += ("direct-engine-right",)
        r.bad("wrong-region", f"{op} via {via} rules={rules}: {msg}; operands={operands!r}"[:3000])
    return r


def _engine_refuses(op, operands, rules) -> bool:
    """Ask skia-pathops directly (not through picosvg) whether it can do the operation at all."""
    import pathops

    FT = {"nonzero": pathops.FillType.WINDING, "evenodd": pathops.FillType.EVEN_ODD}
    FN = {"M": "moveTo", "L": "lineTo", "Q": "quadTo", "C": "cubicTo", "Z": "close"}
    try:
        paths = []
        for o, ru in zip(operands, rules):
            p = pathops.Path(fillType=FT[ru])
            for c, a in o:
                getattr(p, FN[c])(*a)
            paths.append(p)
        if op == "remove_overlaps" or len(paths) == 1:
            paths[0].simplify(fix_winding=True)
        else:
            OP = {"union": pathops.PathOp.UNION, "intersection": pathops.PathOp.INTERSECTION, "difference": pathops.PathOp.DIFFERENCE}[op]
            acc = paths[0]
            for q in paths[1:]:
                acc = pathops.op(acc, q, OP, fix_winding=True)
        return False
    except pathops.PathOpsError:
        return True
    except Exception:
        return False


def _share_edge(operands):
    seen = {}
    for k, o in enumerate(operands):
        subs = _cmds_to_subs(o)
        mine = set()
        for sub in subs:
            for seg in sub["segs"]:
                a, b = seg[1], seg[-1]
                key = tuple(sorted([(round(a[0], 6), round(a[1], 6)), (round(b[0], 6), round(b[1], 6))]))
                mine.add(key)
        for key in mine:
            if key in seen and seen[key] != k:
                return True
        for key in mine:
            seen[key] = k
    return False


def _halton(i, base):
    f, x = 1.0, 0.0
    while i > 0:
        f /= base
        x += f * (i % base)
        i //= base
    return x


# ------------------------------------------------------------------ operand generators


def _c():
    return st.integers(0, 10000).map(lambda k: k / 100.0)


def _refusers():
    import json, os

    return json.load(open(os.path.join(os.path.dirname(__file__), "c13_refusers.json")))["paths"]


_REFUSERS = _refusers()


@st.composite
def operand(draw):
    kind = draw(st.sampled_from(["convex", "star", "ring-same", "ring-opp", "random-poly", "random-poly", "open", "ellipse", "curvy", "multi", "refuser", "bowtie", "opposite-pair", "loop", "minified"]))
    if kind == "loop":
        # a contour drawn by ONE cubic that returns to its start (teardrop / petal): no segment of it is
        # "zero-length" although its end points coincide; optionally next to an ordinary square
        x0, y0 = draw(st.integers(10, 60)), draw(st.integers(20, 70))
        a, b = draw(st.integers(20, 45)), draw(st.integers(15, 40))
        sgn = draw(st.sampled_from([1, -1]))
        cm = [["M", [x0, y0]], ["C", [x0 + a, y0 + sgn * b, x0 + a, y0 - sgn * b, x0, y0]], ["Z", []]]
        if draw(st.booleans()):
            q = draw(st.integers(60, 80))
            cm += [["M", [q, 5]], ["L", [q + 15, 5]], ["L", [q + 15, 20]], ["L", [q, 20]], ["Z", []]]
        return kind, cm
    if kind == "minified":
        # what minifiers write: 2-4 rectangles in ONE path, later subpaths opened by relative or absolute moveto
        # after z, edges as any of L/l/H/h/V/v (the reference interprets the spelling itself).  Judged through
        # the svg_types wrappers only (svg_pathops takes absolute M/L/Q/C/Z).
        nrect = draw(st.integers(2, 4))
        cm, cur = [], (0.0, 0.0)
        for i in range(nrect):
            x0, y0 = draw(st.integers(0, 70)), draw(st.integers(0, 70))
            w, h = draw(st.integers(8, 30)), draw(st.integers(8, 30))
            if i and draw(st.booleans()):
                cm.append(["m", [x0 - cur[0], y0 - cur[1]]])
            else:
                cm.append(["M", [x0, y0]])
            pts = [(x0 + w, y0), (x0 + w, y0 + h), (x0, y0 + h)]
            if draw(st.booleans()):
                pts = [(x0, y0 + h), (x0 + w, y0 + h), (x0 + w, y0)]
            c = (x0, y0)
            for q in pts:
                horizontal = q[1] == c[1]
                form = draw(st.sampled_from(["L", "l", "HV", "HV", "hv"]))
                if form == "L":
                    cm.append(["L", [q[0], q[1]]])
                elif form == "l":
                    cm.append(["l", [q[0] - c[0], q[1] - c[1]]])
                elif form == "HV":
                    cm.append(["H", [q[0]]] if horizontal else ["V", [q[1]]])
                else:
                    cm.append(["h", [q[0] - c[0]]] if horizontal else ["v", [q[1] - c[1]]])
                c = q
            cm.append([draw(st.sampled_from("zZ")), []])
            cur = (x0, y0)
        return kind, cm
    if kind == "refuser":
        # a path on which skia-pathops is known to give up (PathOpsError), moved by an integer offset
        base = draw(st.sampled_from(_REFUSERS))
        dx, dy = draw(st.integers(0, 40)), draw(st.integers(0, 40))
        return kind, [[c, [v + (dx if j % 2 == 0 else dy) for j, v in enumerate(a)]] for c, a in base]
    cx, cy = draw(st.integers(2000, 8000)) / 100.0, draw(st.integers(2000, 8000)) / 100.0
    r = draw(st.integers(800, 3500)) / 100.0
    rot = draw(st.integers(0, 628)) / 100.0
    cmds = []

    def poly(points, close=True):
        out = [["M", [round(points[0][0], 2), round(points[0][1], 2)]]]
        for p in points[1:]:
            out.append(["L", [round(p[0], 2), round(p[1], 2)]])
        if close:
            out.append(["Z", []])
        return out

    if kind == "bowtie":
        # symmetric bow-tie: the two lobes have exactly cancelling signed areas (integer coordinates)
        x0, y0 = draw(st.integers(5, 40)), draw(st.integers(5, 40))
        w, h = draw(st.integers(10, 50)), draw(st.integers(10, 50))
        return kind, [["M", [x0, y0]], ["L", [x0 + w, y0 + h]], ["L", [x0 + w, y0]], ["L", [x0, y0 + h]], ["Z", []]]
    if kind == "opposite-pair":
        # two equal squares drawn in opposite directions: signed areas cancel, both have an interior
        x0, y0 = draw(st.integers(5, 30)), draw(st.integers(5, 60))
        a = draw(st.integers(8, 25))
        gap = draw(st.integers(3, 20))
        x1 = x0 + a + gap
        return kind, [["M", [x0, y0]], ["L", [x0 + a, y0]], ["L", [x0 + a, y0 + a]], ["L", [x0, y0 + a]], ["Z", []], ["M", [x1, y0]], ["L", [x1, y0 + a]], ["L", [x1 + a, y0 + a]], ["L", [x1 + a, y0]], ["Z", []]]
    if kind == "convex":
        n = draw(st.integers(3, 7))
        cmds = poly([(cx + r * math.cos(rot + 2 * math.pi * i / n), cy + r * math.sin(rot + 2 * math.pi * i / n)) for i in range(n)])
    elif kind == "star":
        n = draw(st.sampled_from([5, 7]))
        step = 2 if n == 5 else 3
        cmds = poly([(cx + r * math.cos(rot + 2 * math.pi * (i * step) / n), cy + r * math.sin(rot + 2 * math.pi * (i * step) / n)) for i in range(n)])
    elif kind in ("ring-same", "ring-opp"):
        outer = [(cx + r * math.cos(rot + 2 * math.pi * i / 4), cy + r * math.sin(rot + 2 * math.pi * i / 4)) for i in range(4)]
        k = draw(st.integers(30, 70)) / 100.0
        inner = [(cx + k * r * math.cos(rot + 2 * math.pi * i / 4), cy + k * r * math.sin(rot + 2 * math.pi * i / 4)) for i in range(4)]
        if kind == "ring-opp":
            inner = inner[::-1]
        cmds = poly(outer) + poly(inner)
    elif kind == "random-poly":
        n = draw(st.integers(3, 7))
        cmds = poly([(draw(_c()), draw(_c())) for _ in range(n)])
    elif kind == "open":
        n = draw(st.integers(3, 6))
        cmds = poly([(draw(_c()), draw(_c())) for _ in range(n)], close=False)
    elif kind == "ellipse":
        ry = draw(st.integers(500, 3000)) / 100.0
        p = SVGPath(d=f"M{cx + r},{cy} A{r} {ry} 0 1 1 {cx - r},{cy} A{r} {ry} 0 1 1 {cx + r},{cy} Z")
        cmds = [[c, [round(x, 3) for x in a]] for c, a in p.as_cmd_seq()]
    elif kind == "curvy":
        n = draw(st.integers(3, 5))
        pts = [(cx + r * math.cos(rot + 2 * math.pi * i / n), cy + r * math.sin(rot + 2 * math.pi * i / n)) for i in range(n)]
        cmds = [["M", [round(pts[0][0], 2), round(pts[0][1], 2)]]]
        for i in range(n):
            a, b = pts[i], pts[(i + 1) % n]
            mx, my = (a[0] + b[0]) / 2, (a[1] + b[1]) / 2
            bulge = draw(st.integers(-50, 50)) / 100.0
            cpt = (mx - bulge * (b[1] - a[1]), my + bulge * (b[0] - a[0]))
            if draw(st.booleans()):
                cmds.append(["Q", [round(cpt[0], 2), round(cpt[1], 2), round(b[0], 2), round(b[1], 2)]])
            else:
                c1 = (a[0] + (cpt[0] - a[0]) * 0.7, a[1] + (cpt[1] - a[1]) * 0.7)
                c2 = (b[0] + (cpt[0] - b[0]) * 0.7, b[1] + (cpt[1] - b[1]) * 0.7)
                cmds.append(["C", [round(c1[0], 2), round(c1[1], 2), round(c2[0], 2), round(c2[1], 2), round(b[0], 2), round(b[1], 2)]])
        cmds.append(["Z", []])
    else:  # multi: two overlapping contours, same or opposite direction
        a = [(cx + r * math.cos(rot + 2 * math.pi * i / 5), cy + r * math.sin(rot + 2 * math.pi * i / 5)) for i in range(5)]
        dx = draw(st.integers(-100, 100)) / 100.0 * r
        b = [(x + dx, y + 0.37 * dx) for x, y in a]
        if draw(st.booleans()):
            b = b[::-1]
        cmds = poly(a) + poly(b)
    return kind, cmds


@st.composite
def op_case(draw):
    op = draw(st.sampled_from(["union", "intersection", "difference", "remove_overlaps"]))
    n = 1 if op == "remove_overlaps" else draw(st.sampled_from([1, 2, 2, 2, 3, 3, 4]))
    ops = [draw(operand()) for _ in range(n)]
    # Hypothesis likes to repeat draws; identical operands fall under known finding ENGINE-COINCIDENT.
    # Shift the i-th operand by a small index-dependent offset so that repeats are merely near-identical.
    ops = [(k, [[c, [v + (3 * i if j % 2 == 0 else 5 * i) for j, v in enumerate(a)]] for c, a in cm] if k in ("bowtie", "opposite-pair", "loop") else cm if k in ("refuser", "minified") else [[c, [round(v + (0.13 * i if j % 2 == 0 else 0.29 * i), 3) for j, v in enumerate(a)]] for c, a in cm]) for i, (k, cm) in enumerate(ops)]
    rules = [draw(st.sampled_from(["nonzero", "evenodd"])) for _ in range(n)]
    repeat_rule = False
    if op != "remove_overlaps" and draw(st.integers(0, 9)) == 0:
        # the same outline twice, once per fill rule (nested rectangles of one direction: the rules disagree about the
        # inner one) after an arbitrary first operand: operands are (commands, rule) pairs, not commands alone.
        # (Engine finding ENGINE-COINCIDENT concerns unions of two repeated pairs; this single axis-aligned pair is
        # computed correctly by the engine and is therefore judged.)
        x, y = draw(st.integers(-20, 40)), draw(st.integers(-20, 40))
        w, h = draw(st.integers(40, 90)), draw(st.integers(40, 90))
        ix, iy = x + draw(st.integers(5, 15)), y + draw(st.integers(5, 15))
        iw, ih = w - draw(st.integers(18, 30)), h - draw(st.integers(18, 30))
        P = [["M", [x, y]], ["L", [x + w, y]], ["L", [x + w, y + h]], ["L", [x, y + h]], ["Z", []], ["M", [ix, iy]], ["L", [ix + iw, iy]], ["L", [ix + iw, iy + ih]], ["L", [ix, iy + ih]], ["Z", []]]
        first = ops[0]
        a = draw(st.sampled_from(["nonzero", "evenodd"]))
        ops = [first, ("nested-rects", P), ("nested-rects", [[c, list(v)] for c, v in P])]
        rules = [rules[0], a, "evenodd" if a == "nonzero" else "nonzero"]
        repeat_rule = True
    via = draw(st.sampled_from(["pathops", "pathops", "types", "types-explicit"]))
    if op != "intersection" and via == "types-explicit":
        via = "types"
    if via == "pathops" and any(k == "minified" for k, _ in ops):
        via = "types"
    case = {"op": op, "via": via, "operands": [c for _, c in ops], "rules": rules, "kinds": [k for k, _ in ops]}
    if repeat_rule:
        case["repeat_rule"] = True
    return case


SUBCHECKS = {
    "op": Sub("op", check_op, strategy=lambda ctx: op_case(), examples={"quick": 1500, "thorough": 12000}),
}
