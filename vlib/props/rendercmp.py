"""Shared differential-render oracle for the semantic-equivalence properties
(C02, C03, C04, C05, C06, C18, C19): render(source) vs render(converted) with vlib.refsvg."""
from __future__ import annotations

import numpy as np

from vlib.run import Result
from vlib.refsvg import render

from picosvg.svg import SVG


def convert(svg_text: str, **opts) -> str:
    return SVG.fromstring(svg_text).topicosvg(**opts).tostring()


def compare(src: str, out: str, r: Result, what=("stack",), rgba_tol=1.5 / 255, strokes=True, gradients=True, min_trusted=20, label="", convert_fn=None, attribute=True):
    """Adds violations to r; returns dict with statistics or None when the oracle cannot judge.

    Engine attribution (three stages, only entered when a render mismatch was found).  Stage 0, isolation: if
    every rendered leaf converts correctly in a document of its own (fresh interpreter per sub-document), the
    mismatch is caused by the other shapes' presence, never by the engine, and stays a violation.  Stage 1: when a mismatch is found and the polygonal twin of the source (all curves
    flattened to lines, everything else kept) converts without any mismatch, the mismatch is attributed to
    skia-pathops' handling of curved input (known finding ENGINE): r.excluded is set and no violation
    is recorded.  Wrapper-logic errors (transforms, rules, clips, cascade) show on the twin as well.
    A second stage attributes a mismatch that vanishes in at least 2 of 3
    jitter twins (all absolute coordinates moved by <= 0.2 % of the viewBox) to the engine as well."""
    stats = _compare(src, out, r, what, rgba_tol, strokes, gradients, min_trusted, label)
    # isolation: the engine is only ever handed one shape (and its clips) at a time, so a mismatch that is gone as soon as
    # each rendered leaf is converted in a document of its own is caused by the other shapes' presence (state carried
    # from shape to shape, memoisation with an incomplete key, id bookkeeping) - never by the engine.  Such a
    # mismatch is kept, whatever the jitter twins below would say (jitter breaks textual coincidences between shapes).
    interference = False
    if attribute and r.violations and all(c in ("stack-differs", "colour-differs") for c, _ in r.violations):
        try:
            # with the default conversion every sub-document is converted in a fresh interpreter, so that state kept at
            # module level (a cache filled while the full document was converted) cannot make a leaf fail "on its own"
            interference = _only_with_company(src, convert_fn or _fresh_convert, what, rgba_tol, strokes, gradients, min_trusted, stats.get("bad_pts") if stats else None)
        except Exception:
            interference = False
        if interference:
            r.violations = [(c, m + "  [each shape converts correctly in a document of its own: the mismatch needs the other shapes' presence, so it is not an engine failure]") for c, m in r.violations]
    # pre-engine stage: picosvg's pure-Python rewrites (basic shapes -> paths, shorthand expansion, absolute form) never
    # touch skia-pathops.  If the source already renders differently from its own engine-free rewrite, the mismatch
    # arose before the engine was asked anything - it stays a violation whatever the twins below would say (their
    # polygonal / jittered sources bypass exactly that shape-to-path code).
    if attribute and not interference and r.violations and all(c in ("stack-differs", "colour-differs") for c, _ in r.violations):
        try:
            from picosvg.svg import SVG as _SVG

            pre = _SVG.fromstring(src).shapes_to_paths().expand_shorthand().absolute().tostring()
            r0 = Result()
            st0 = _compare(src, pre, r0, what, rgba_tol, strokes, gradients, min_trusted, label)
            if st0 and r0.violations and not r0.rejected:
                interference = True  # (re-uses the flag: skip the engine attribution stages)
                r.violations = [(c, m + "  [the engine-free rewrite shapes_to_paths().expand_shorthand().absolute() of the source already renders differently: not an engine failure]") for c, m in r.violations]
        except Exception:
            pass
    if attribute and not interference and r.violations and all(c in ("stack-differs", "colour-differs") for c, _ in r.violations):
        try:
            from vlib.refsvg import polygonal

            twin, n = polygonal.polygonalise(src)
            if n > 0:
                out2 = (convert_fn or convert)(twin)
                r2 = Result()
                st2 = _compare(twin, out2, r2, what, rgba_tol, strokes, gradients, min_trusted, label)
                if st2 and not r2.violations and not r2.rejected:
                    r.violations.clear()
                    r.excluded = "ENGINE"
                    r.info = None
        except Exception:
            pass
    # second stage: instability under tiny coordinate jitter (see vlib/refsvg/jitter.py).  Engine failures also
    # occur on purely polygonal input (overlapping dash outlines, degenerate cubics flattened to repeated points);
    # they depend on the exact coordinates, whereas errors of picosvg's own logic (transform order, rules, clip
    # and cascade handling, stacking, opacity) are indifferent to moving every coordinate by <= 0.2 % of the viewBox.
    # What this can hide: an error that needs an exact coordinate coincidence (path-level ones are covered by C09).
    if attribute and not interference and r.violations and all(c in ("stack-differs", "colour-differs") for c, _ in r.violations):
        try:
            from vlib.refsvg import jitter

            clean = 0
            for k in (1, 2, 3):
                tw = jitter.jitter(src, k)
                r2 = Result()
                st2 = _compare(tw, (convert_fn or convert)(tw), r2, what, rgba_tol, strokes, gradients, min_trusted, label)
                if st2 and not r2.violations and not r2.rejected:
                    clean += 1
            if clean >= 2:
                r.violations.clear()
                r.excluded = "ENGINE"
                r.info = None
        except Exception:
            pass
    # root-cause test for open finding ENGINE-FIXWINDING (skia-pathops Path.simplify(fix_winding=True) turns a correct
    # raw stroke outline into a wrong region, whereas fix_winding=False keeps the region): convert once more with
    # picosvg's stroker replaced by a copy that differs in that single flag.  picosvg's own logic is identical in both
    # conversions, so a mismatch that vanishes can only come from the engine's winding fix-up.  Only while the finding is open.
    if attribute and strokes and not interference and convert_fn is None and r.violations and all(c in ("stack-differs", "colour-differs") for c, _ in r.violations):
        try:
            from vlib.run import open_finding_ids

            if "ENGINE-FIXWINDING" in open_finding_ids():
                out3 = _convert_without_fix_winding(src)
                r3 = Result()
                st3 = _compare(src, out3, r3, what, rgba_tol, strokes, gradients, min_trusted, label)
                if st3 and not r3.violations and not r3.rejected:
                    r.violations.clear()
                    r.excluded = "ENGINE-FIXWINDING"
                    r.info = None
        except Exception:
            pass
    if stats:
        stats.pop("bad_pts", None)
    return stats


def _convert_without_fix_winding(svg_text: str) -> str:
    from picosvg import svg_pathops as sp

    orig = sp.stroke

    def stroke_nofix(svg_cmds, svg_linecap, svg_linejoin, stroke_width, stroke_miterlimit, tolerance, dash_array=(), dash_offset=0.0):
        cap = sp._SVG_TO_SKIA_LINE_CAP[svg_linecap]
        join = sp._SVG_TO_SKIA_LINE_JOIN[svg_linejoin]
        sk_path = sp.skia_path(svg_cmds, fill_rule="nonzero")
        sk_path.stroke(stroke_width, cap, join, stroke_miterlimit, dash_array, dash_offset)
        sk_path.convertConicsToQuads(tolerance)
        backup = sp.pathops.Path(sk_path)
        try:
            sk_path.simplify(fix_winding=False)
        except sp.pathops.PathOpsError:
            sk_path = backup
        return sp.svg_commands(sk_path)

    sp.stroke = stroke_nofix
    try:
        return convert(svg_text)
    finally:
        sp.stroke = orig


def _fresh_convert(svg_text: str) -> str:
    import subprocess
    import sys

    p = subprocess.run(
        [sys.executable, "-c", "import sys; from picosvg.svg import SVG; sys.stdout.write(SVG.fromstring(sys.stdin.read()).topicosvg().tostring())"],
        input=svg_text, capture_output=True, text=True, timeout=300,
    )
    if p.returncode != 0:
        raise RuntimeError(p.stderr[-200:])
    return p.stdout


_LEAF_TAGS = ("rect", "circle", "ellipse", "line", "polyline", "polygon", "path", "use")


def _only_with_company(src, convert_fn, what, rgba_tol, strokes, gradients, min_trusted, bad_pts=None) -> bool:
    """True iff the document has >= 2 rendered leaves and every single-leaf sub-document (all other rendered leaves
    removed; defs, clip paths, ancestors and root kept) converts without mismatch.  False when that cannot be judged
    (a rendered leaf is itself referenced, a sub-document is rejected or fails)."""
    import copy
    import re
    import xml.etree.ElementTree as ET

    NS = render.SVG
    ET.register_namespace("", "http://www.w3.org/2000/svg")
    ET.register_namespace("xlink", "http://www.w3.org/1999/xlink")
    root = ET.fromstring(src.encode())
    refs = set(re.findall(r"#([^\s\")']+)", src))

    def rendered(el, acc, path):
        for i, ch in enumerate(el):
            if not isinstance(ch.tag, str) or not ch.tag.startswith(NS):
                continue
            t = ch.tag[len(NS):]
            if t in ("defs", "clipPath", "linearGradient", "radialGradient", "symbol", "mask", "pattern", "marker"):
                continue
            if t in _LEAF_TAGS:
                acc.append(path + (i,))
            else:
                rendered(ch, acc, path + (i,))

    leaves = []
    rendered(root, leaves, ())
    if len(leaves) < 2 or len(leaves) > 12:
        return False

    def at(r0, path):
        el = r0
        for i in path:
            el = list(el)[i]
        return el

    for p in leaves:
        el = at(root, p)
        ids = {e.get("id") for e in el.iter() if e.get("id")}
        if ids & refs:
            return False  # instanced elsewhere: removing it would change other leaves
    for keep in leaves:
        r0 = copy.deepcopy(root)
        doomed = [(at(r0, p[:-1]), at(r0, p)) for p in leaves if p != keep]
        for parent, el in doomed:
            parent.remove(el)
        sub = ET.tostring(r0, encoding="unicode")
        r2 = Result()
        try:
            out2 = convert_fn(sub)
        except Exception:
            return False
        # every sub-document is also probed at the points where the full document went wrong
        st2 = _compare(sub, out2, r2, what, rgba_tol, strokes, gradients, 1, "", extra_pts=bad_pts)
        if st2 is None or r2.violations or r2.rejected:
            return False
    return True


def _compare(src, out, r, what, rgba_tol, strokes, gradients, min_trusted, label, extra_pts=None):
    try:
        s1 = render.build(src, strokes=strokes, gradients=gradients)
    except render.Unsupported as e:
        r.rejected = f"oracle-unsupported-src:{str(e)[:40]}"
        return None
    try:
        s2 = render.build(out, strokes=strokes, gradients=gradients)
    except render.Unsupported as e:
        r.bad("output-unreadable", f"{label}converted document uses something outside the picosvg subset: {e}; out={out[:300]}")
        return None
    pts = s1.sample_points()
    # add edge-offset points of the output as well (a shape that moved is probed at its new place too)
    pts2 = s2.sample_points(n_halton=0, n_edge=80)
    if len(pts2):
        pts = np.concatenate([pts, pts2])
    if extra_pts is not None and len(extra_pts):
        pts = np.concatenate([pts, np.asarray(extra_pts, dtype=float).reshape(-1, 2)])
    r1 = s1.render(pts)
    r2 = s2.render(pts)
    ok = r1.trusted & r2.trusted
    stats = {
        "points": int(len(pts)),
        "trusted": int(ok.sum()),
        "covered": int((ok & r1.covered).sum()),
        "src_leaves": r1.n_leaves,
        "out_leaves": r2.n_leaves,
    }
    if stats["trusted"] < min_trusted:
        r.rejected = "too-few-trusted-points"
        return stats
    allbad = np.zeros(len(pts), dtype=bool)
    if "stack" in what:
        bad = ok & (r1.stack != r2.stack)
        allbad |= bad
        if bad.any():
            i = int(np.nonzero(bad)[0][0])
            r.bad(
                "stack-differs",
                f"{label}{int(bad.sum())}/{stats['trusted']} trusted points see a different ordered stack of paints, e.g. at ({pts[i][0]:.3f},{pts[i][1]:.3f}): "
                f"source rgba={np.round(r1.rgba[i], 3).tolist()} converted rgba={np.round(r2.rgba[i], 3).tolist()}; out={out[:400]}",
            )
            r.info = {"out": out, "point": pts[i].tolist()}
    if "rgba" in what:
        d = np.abs(r1.rgba - r2.rgba).max(axis=1)
        bad = ok & (d > rgba_tol)
        allbad |= bad
        if bad.any():
            i = int(np.nonzero(bad)[0][np.argmax(d[bad])])
            r.bad(
                "colour-differs",
                f"{label}{int(bad.sum())}/{stats['trusted']} trusted points composite to a different colour, e.g. at ({pts[i][0]:.3f},{pts[i][1]:.3f}): "
                f"source rgba={np.round(r1.rgba[i], 3).tolist()} converted rgba={np.round(r2.rgba[i], 3).tolist()}; out={out[:400]}",
            )
            r.info = {"out": out, "point": pts[i].tolist()}
    stats["bad_pts"] = pts[allbad][:200]
    return stats
