"""C15 - an SVG object always equals its serialisation, whatever the operation history.

Oracle (model): the same history run on a twin that is serialised and re-parsed between every two
steps (SVG.fromstring(x.tostring())) and that always uses the in-place form on the fresh object.
The live object is observed without perturbing it through a structural snapshot (deep copy of the
tree + of the shape cache, cache entries re-pointed at the copied elements); the snapshot itself is
validated against the real tostring() at the end of every history.
"""
from __future__ import annotations

import copy
import functools
import itertools
import json

from hypothesis import strategies as st
from lxml import etree

from vlib.run import Result, Sub
from vlib import c15_docs as D

from picosvg.svg import SVG

ID = "C15"
RULE = (
    "A case is (document, history).  Documents: 6 fixed small SVGs (basic shapes + styled path in a group; use + "
    "nested svg + title/symbol; evenodd + stroke + out-of-viewBox shapes + empty subpaths; a picosvg with gradient; "
    "foreign-namespace content + PI + clipPath + objectBoundingBox gradient under a transform + root paint; "
    "width/height only with root stroke) and, for random histories, documents composed from 20 self-contained "
    "fragments x 6 root attribute sets.  A history is a list of steps; a step is one of 20 operations with an "
    "inplace flag (absolute, shapes_to_paths, expand_shorthand, apply_style_attributes, resolve_use, "
    "resolve_nested_svgs, simplify, clip_to_viewbox, evenodd_to_nonzero_winding, round_floats(0|1|3), "
    "remove_empty_subpaths, remove_unpainted_shapes, remove_nonsvg_content, remove_processing_instructions, "
    "remove_anonymous_symbols, remove_title_meta_desc, set_attributes(pairs, xpath), remove_attributes(names, xpath), "
    "normalize_opacity, topicosvg(1|3)) x inplace in {True, False}, the in-place-only mutators "
    "checkpicosvg(drop_unsupported=True) and append_to(xpath, <path>), or a read-only query (shapes, bounding_box, "
    "view_box, tolerance, tostring, toetree, checkpicosvg, depth_first).  After a copying step the history continues "
    "on the returned object; the receiver is kept and re-checked at the end.  exh: every history of length <= 2 "
    "over all 74 step variants x the 6 fixed documents plus every history of length 3 over one variant per "
    "operation (48 steps: toetree and depth_first left to the length-2 part) x the 6 documents (thorough); quick: length <= 2 over all 74 variants on 2 documents and "
    "over the 48 core variants on the other 4; hist: Hypothesis histories of 1..8 steps with arguments drawn from pools "
    "(attribute pairs, names, 5 xpaths).  Non-trivial = some step that is not a pure root-attribute query "
    "(view_box, tolerance) was executed while the shape cache of the receiving object was populated (observed: "
    "SVG.elements truthy at the start of the step), i.e. an edit/query filled the cache and a tree-level, copying, "
    "cache-editing or flushing step followed.  Distinct = distinct (document, history)."
)
ASSUMPTIONS = [
    "twin = SVG.fromstring(prev.tostring()) then the in-place form of the step; documents are compared as lxml C14N 2.0 strings (attribute order and unused namespace declarations are ignored)",
    "snapshot(svg) = SVG over a deep copy of svg_root whose cache entries point at the corresponding copied elements (copy.deepcopy of an SVG with pending edits cannot be serialised: lxml copies each cached element as a detached root); validated against the real tostring() at the end of every history (clause snapshot-unfaithful)",
    "fenced: appending into a shape element (shapes have no children), comments/PIs outside the root element (lost by tostring, so the twin legitimately differs), <use> cycles, non-xlink href, malformed numbers/viewBox",
    "a step that raises the same exception type in the live run and in the twin is agreement (class both-raise:<type>); the history stops there",
    "an object whose steps all returned normally must serialise: tostring() raising is reported (clause unserialisable) because the object then has no serialisation to equal",
    "query values compared between live object and twin: view_box(), tolerance, checkpicosvg() (functions of the document only); shapes()/bounding_box() values are not compared",
    "clauses: diverges:<operation after which the documents first differ>, receiver-changed, inplace-returns-other, raises-differently, unserialisable, query-differs, copy-returns-nonsvg, snapshot-unfaithful",
]

# ---------------------------------------------------------------------------------- operations

NOARG = (
    "absolute",
    "shapes_to_paths",
    "expand_shorthand",
    "apply_style_attributes",
    "resolve_use",
    "resolve_nested_svgs",
    "simplify",
    "clip_to_viewbox",
    "evenodd_to_nonzero_winding",
    "remove_empty_subpaths",
    "remove_unpainted_shapes",
    "remove_nonsvg_content",
    "remove_processing_instructions",
    "remove_anonymous_symbols",
    "remove_title_meta_desc",
    "normalize_opacity",
)
# operations that only edit shapes through the cache (no flush of their own)
CACHE_OPS = {"absolute", "shapes_to_paths", "expand_shorthand", "evenodd_to_nonzero_winding", "round_floats", "remove_empty_subpaths", "normalize_opacity"}
ARG_OPS = ("round_floats", "topicosvg", "set_attributes", "remove_attributes")
INPLACE_ONLY = ("checkpicosvg_drop", "append_to")
QUERIES = ("shapes", "bounding_box", "view_box", "tolerance", "tostring", "toetree", "checkpicosvg", "depth_first")
NEUTRAL_QUERIES = {"view_box", "tolerance"}
VALUE_QUERIES = {"view_box", "tolerance", "checkpicosvg"}

XPATHS = ["/svg:svg", "//svg:g", "//svg:path", "//svg:*[@id]", "/svg:svg/svg:*[1]"]
SET_POOL = [
    ["fill", "red"],
    ["viewBox", "0 0 50 50"],
    ["viewBox", "5 5 20 30"],
    ["stroke", "blue"],
    ["stroke-width", "3"],
    ["opacity", "0.5"],
    ["width", "40"],
    ["height", "60"],
    ["fill-rule", "evenodd"],
    ["style", "fill:green"],
    ["fill-opacity", "0.25"],
    ["id", "zz"],
    ["transform", "translate(5 5)"],
    ["display", "none"],
]
REMOVE_POOL = ["viewBox", "width", "height", "fill", "style", "id", "transform", "opacity", "clip-path", "stroke", "class", "fill-rule"]

APPEND_XML = '<path xmlns="http://www.w3.org/2000/svg" d="M1,1 l3,0 l0,3 z" fill="gold"/>'


def S(op, args=(), inplace=None):
    d = {"op": op}
    if args:
        d["args"] = list(args)
    if inplace is not None:
        d["inplace"] = inplace
    return d


def _variants_full():
    out = []
    for ip in (True, False):
        for op in NOARG:
            out.append(S(op, (), ip))
        for n in (0, 1, 3):
            out.append(S("round_floats", (n,), ip))
        for n in (1, 3):
            out.append(S("topicosvg", (n,), ip))
        for pairs, xp in (
            ([["fill", "red"]], "/svg:svg"),
            ([["viewBox", "0 0 50 50"]], "/svg:svg"),
            ([["stroke", "blue"], ["stroke-width", "3"]], "/svg:svg"),
            ([["width", "40"], ["height", "60"]], "/svg:svg"),
            ([["fill", "red"]], "//svg:g"),
            ([["opacity", "0.5"]], "//svg:path"),
        ):
            out.append(S("set_attributes", (pairs, xp), ip))
        for names, xp in (
            (["viewBox"], "/svg:svg"),
            (["width", "height"], "/svg:svg"),
            (["fill", "stroke"], "/svg:svg"),
            (["style", "opacity"], "//svg:g"),
            (["fill", "id"], "//svg:path"),
        ):
            out.append(S("remove_attributes", (names, xp), ip))
    out.append(S("checkpicosvg_drop"))
    out.append(S("append_to", ("/svg:svg",)))
    for q in QUERIES:
        out.append(S(q))
    return out


def _variants_core():
    out = []
    for ip in (True, False):
        for op in NOARG:
            out.append(S(op, (), ip))
        out.append(S("round_floats", (1,), ip))
        out.append(S("topicosvg", (3,), ip))
        out.append(S("set_attributes", ([["fill", "red"], ["viewBox", "0 0 50 50"]], "/svg:svg"), ip))
        out.append(S("remove_attributes", (["viewBox", "fill"], "/svg:svg"), ip))
    out.append(S("checkpicosvg_drop"))
    out.append(S("append_to", ("/svg:svg",)))
    for q in QUERIES:
        if q not in ("toetree", "depth_first"):  # toetree flushes exactly like tostring; depth_first only reads
            out.append(S(q))
    return out


FULL = _variants_full()
CORE = _variants_core()


def step_label(step):
    s = step["op"]
    if step.get("args"):
        s += "(" + ",".join(json.dumps(a, separators=(",", ":")) for a in step["args"]) + ")"
    if "inplace" in step:
        s += "!" if step["inplace"] else "+copy"
    return s


def apply_step(svg: SVG, step, force_inplace=False):
    """Run one step on svg.  Returns the value the public call returned."""
    op = step["op"]
    args = step.get("args", [])
    if op in QUERIES:
        if op == "tolerance":
            return svg.tolerance
        if op == "depth_first":
            return sum(1 for _ in svg.depth_first())
        return getattr(svg, op)()
    if op == "checkpicosvg_drop":
        return svg.checkpicosvg(drop_unsupported=True)
    if op == "append_to":
        return svg.append_to(args[0], etree.fromstring(APPEND_XML))
    ip = True if force_inplace else bool(step["inplace"])
    if op in NOARG:
        return getattr(svg, op)(inplace=ip)
    if op == "round_floats":
        return svg.round_floats(args[0], inplace=ip)
    if op == "topicosvg":
        return svg.topicosvg(ndigits=args[0], inplace=ip)
    if op == "set_attributes":
        return svg.set_attributes([tuple(p) for p in args[0]], xpath=args[1], inplace=ip)
    if op == "remove_attributes":
        return svg.remove_attributes(list(args[0]), xpath=args[1], inplace=ip)
    raise KeyError(op)


def _qvalue(op, v):
    if op == "tolerance":
        return repr(float(v))
    if op == "view_box":
        return "None" if v is None else repr(tuple(float(x) for x in v))
    if op == "checkpicosvg":
        return repr(tuple(v))
    return None


def _ask(svg, q):
    try:
        return _qvalue(q, apply_step(svg, S(q)))
    except Exception as e:
        return f"raises {type(e).__name__}"


# ---------------------------------------------------------------------------------- observation


@functools.lru_cache(maxsize=8192)
def canon(xml: str) -> str:
    return etree.canonicalize(xml)


def snapshot(svg: SVG) -> SVG:
    """Structural copy of svg (tree + pending shape cache) that shares nothing with it."""
    new = SVG(copy.deepcopy(svg.svg_root))
    els = svg.elements
    if not els:
        new.elements = None if els is None else []
        return new
    mapping = {}
    for o, n in zip(svg.svg_root.iter(), new.svg_root.iter()):
        mapping[o] = n
    out = []
    for el, shapes in els:
        tgt = mapping.get(el)
        if tgt is None:  # cache entry that is no longer part of the tree: keep it detached
            tgt = copy.deepcopy(el)
        out.append((tgt, copy.deepcopy(shapes)))
    new.elements = out
    return new


def observe(svg: SVG):
    """('ok', canonical xml, raw) of what svg.tostring() would return, without touching svg."""
    try:
        raw = snapshot(svg).tostring()
        return ("ok", canon(raw), raw)
    except Exception as e:  # serialising the object fails
        return ("raise", type(e).__name__, f"{type(e).__name__}: {e}")


# ---------------------------------------------------------------------------------- twin (model)


@functools.lru_cache(maxsize=60000)
def _twin(doc: str, keys: tuple):
    """State of the twin after the history `keys` (tuple of JSON step strings):
    ('ok', serialisation, query value | None), ('raise', exception type, message) when the last step
    raised, or ('unserialisable', exception type, message) when the step returned but tostring() raised."""
    if not keys:
        return ("ok", doc, None)
    prev = _twin(doc, keys[:-1])
    if prev[0] != "ok":
        return prev
    step = json.loads(keys[-1])
    try:
        obj = SVG.fromstring(prev[1])
        val = apply_step(obj, step, force_inplace=True)
        q = _qvalue(step["op"], val) if step["op"] in VALUE_QUERIES else None
    except Exception as e:
        return ("raise", type(e).__name__, f"{type(e).__name__}: {e}")
    try:
        return ("ok", obj.tostring(), q)
    except Exception as e:
        return ("unserialisable", type(e).__name__, f"{type(e).__name__}: {e}")


def _diff(a: str, b: str, ctx=70):
    i = 0
    n = min(len(a), len(b))
    while i < n and a[i] == b[i]:
        i += 1
    lo = max(0, i - ctx)
    return f"live ...{a[lo:i + ctx]}... vs re-parsed ...{b[lo:i + ctx]}..."


def check_case(case) -> Result:
    doc = case["doc"]
    steps = case["steps"]
    r = Result()
    keys = tuple(json.dumps(s, sort_keys=True) for s in steps)
    labels = [step_label(s) for s in steps]
    classes = set()
    try:
        cur = SVG.fromstring(doc)
    except Exception as e:
        r.rejected = f"parse:{type(e).__name__}"
        return r
    abandoned = []
    last_obs = None
    stopped = False
    hist = lambda k: " ; ".join(labels[: k + 1])
    edits_seen = 0
    query_after_edit = False

    for k, step in enumerate(steps):
        op = step["op"]
        is_query = op in QUERIES
        is_copy = step.get("inplace") is False
        populated = bool(cur.elements)
        if populated and op not in NEUTRAL_QUERIES:
            r.nontrivial = True
            if is_copy:
                classes.add("cache-populated->copying-op")
            elif is_query:
                classes.add("cache-populated->flushing-query" if op in ("tostring", "toetree", "checkpicosvg") else "cache-populated->query")
            elif op in CACHE_OPS:
                classes.add("cache-populated->cache-edit")
            else:
                classes.add("cache-populated->tree-op")
        if not is_query:
            if query_after_edit:
                classes.add("edit,query,edit")
            edits_seen += 1
        elif edits_seen:
            query_after_edit = True
        tw = _twin(doc, keys[: k + 1])

        before = observe(cur) if is_copy else None
        live_exc = None
        val = None
        try:
            val = apply_step(cur, step)
        except Exception as e:
            live_exc = (type(e).__name__, f"{type(e).__name__}: {e}")

        if live_exc or tw[0] == "raise":
            lt = live_exc[0] if live_exc else None
            tt = tw[1] if tw[0] == "raise" else None
            if lt != tt:
                r.bad(
                    "raises-differently",
                    f"after [{hist(k)}] the live object {'raised ' + live_exc[1] if live_exc else 'returned'} but the "
                    f"history with re-parsing between steps {'raised ' + tw[2] if tt else 'returned'}",
                )
            else:
                classes.add(f"both-raise:{lt}")
            stopped = True
            break
        if tw[0] == "unserialisable":
            r.bad("unserialisable", f"[{hist(k)}] with re-parsing between steps: every step returned normally but tostring() then raises {tw[2]}")
            stopped = True
            break

        if "inplace" in step:
            if step["inplace"]:
                if val is not cur:
                    # the history continues on the receiver: that is the object an in-place call edits
                    r.bad("inplace-returns-other", f"[{hist(k)}]: {op}(inplace=True) did not return the receiver")
            else:
                classes.add("copy-step")
                if not isinstance(val, SVG):
                    r.bad("copy-returns-nonsvg", f"[{hist(k)}]: {op}(inplace=False) returned {type(val).__name__}")
                    stopped = True
                    break
                after = observe(cur)
                if before[0] == "ok" and (after[0] != "ok" or after[1] != before[1]):
                    r.bad(
                        "receiver-changed",
                        f"[{hist(k)}]: the copying call changed the receiver: "
                        + (_diff(after[1], before[1]).replace("live", "after").replace("re-parsed", "before") if after[0] == "ok" else f"serialising it now raises {after[2]}"),
                    )
                abandoned.append((cur, before, k))
                cur = val

        if op in VALUE_QUERIES:
            q = _qvalue(op, val)
            if q != tw[2]:
                r.bad("query-differs", f"after [{hist(k)}] {op} is {q} on the live object but {tw[2]} on the re-parsed one")

        obs = observe(cur)
        last_obs = obs
        if obs[0] != "ok":
            r.bad("unserialisable", f"after [{hist(k)}] every step returned normally but serialising the live object raises {obs[2]} (with re-parsing between steps it serialises fine)")
            stopped = True
            break
        if obs[1] != canon(tw[1]):
            # bucketed by the operation after which the documents first differ (bounded set of names)
            r.bad(f"diverges:{op}", f"after [{hist(k)}]: {_diff(obs[1], canon(tw[1]))}")
            r.info = {"live": obs[2], "reparsed": tw[1], "first_divergent_step": k}
            stopped = True
            break

    if not stopped:
        # the real thing: serialise the live object; it must agree with the twin and with the snapshot
        tw = _twin(doc, keys)
        try:
            real = cur.tostring()
        except Exception as e:
            r.bad("unserialisable", f"after [{hist(len(steps) - 1)}] every step returned normally but tostring() raises {type(e).__name__}: {e}")
            real = None
        if real is not None:
            if canon(real) != canon(tw[1]):
                r.bad("diverges:final-tostring", f"after [{hist(len(steps) - 1)}] (final tostring): {_diff(canon(real), canon(tw[1]))}")
                r.info = {"live": real, "reparsed": tw[1]}
            if last_obs is not None and last_obs[0] == "ok" and canon(real) != last_obs[1]:
                r.bad("snapshot-unfaithful", f"after [{hist(len(steps) - 1)}] tostring() differs from the serialisation of a structural copy: {_diff(canon(real), last_obs[1])}")
            # the object equals its serialisation: document-level queries agree with a fresh parse
            fresh = SVG.fromstring(tw[1])
            for q in ("view_box", "tolerance"):
                a, b = _ask(cur, q), _ask(fresh, q)
                if a != b:
                    r.bad("query-differs", f"after [{hist(len(steps) - 1)}] {q} is {a} on the live object but {b} on its re-parsed serialisation")

    # receivers of copying steps must still serialise as they did before the call
    for recv, before, k in abandoned:
        if before[0] != "ok":
            continue
        try:
            now = canon(recv.tostring())
        except Exception as e:
            r.bad("receiver-changed", f"receiver of step {k} [{hist(k)}] no longer serialises after the rest of the history: {type(e).__name__}: {e}")
            continue
        if now != before[1]:
            r.bad("receiver-changed", f"receiver of copying step {k} of [{hist(len(steps) - 1)}] changed afterwards: {_diff(now, before[1]).replace('live', 'now').replace('re-parsed', 'before')}")

    r.classes = tuple(sorted(classes))
    return r


# ---------------------------------------------------------------------------------- enumeration


QUICK_FULL_DOCS = ["basic", "use_nested"]


def enum_hist(ctx, shard, nshards):
    docs = list(D.CORPUS.items())
    names = [n for n, _ in docs]
    if ctx.tier == "thorough":
        plan = [("full", FULL, (1, 2), names), ("core", CORE, (3,), names)]
    else:
        plan = [("full", FULL, (1, 2), QUICK_FULL_DOCS), ("core", CORE, (1, 2), [n for n in names if n not in QUICK_FULL_DOCS])]
    ev = nt = 0
    classes = {}
    idx = 0
    complete = True
    first_hit = set()

    def run(doc, hist):
        nonlocal ev, nt
        case = {"doc": doc, "steps": list(hist)}
        res = check_case(case)
        if res.rejected:
            return
        ev += 1
        nt += 1 if res.nontrivial else 0
        for c in res.classes:
            classes[c] = classes.get(c, 0) + 1
        for clause, msg in res.violations:
            ctx.fail("exh", clause, msg, case, res.info)

    for pname, steps, lengths, dnames in plan:
        for dname, doc in docs:
            if dname not in dnames:
                continue
            for first in steps:
                idx += 1
                if idx % nshards != shard:
                    continue
                if ctx.time_left() < 0:
                    complete = False
                    break
                for n in lengths:
                    for rest in itertools.product(steps, repeat=n - 1):
                        run(doc, (first,) + rest)
                _twin.cache_clear()
        ctx.exhaustive[f"{pname}-variants({len(steps)})-lengths{list(lengths)}-docs({len(dnames)})"] = complete
    if not complete:
        ctx.budget_exhausted = True
    ctx.bulk("exh", ev, nt, classes)
    ctx.add_sample({"sub": "exh", "case": {"doc": docs[shard % len(docs)][0], "steps": [step_label(FULL[(7 * shard + 1) % len(FULL)]), step_label(FULL[(11 * shard + 3) % len(FULL)])]}})


# ---------------------------------------------------------------------------------- random histories


def _step_strategy():
    ip = st.booleans()
    pairs = st.lists(st.sampled_from(SET_POOL), min_size=1, max_size=2, unique_by=lambda p: p[0])
    names = st.lists(st.sampled_from(REMOVE_POOL), min_size=1, max_size=3, unique=True)
    xp = st.sampled_from(XPATHS + ["/svg:svg"] * 3)
    return st.one_of(
        st.builds(lambda o, i: S(o, (), i), st.sampled_from(NOARG), ip),
        st.builds(lambda o, i: S(o, (), i), st.sampled_from(sorted(CACHE_OPS - {"round_floats"})), st.just(True)),
        st.builds(lambda n, i: S("round_floats", (n,), i), st.sampled_from([0, 1, 3]), ip),
        st.builds(lambda n, i: S("topicosvg", (n,), i), st.sampled_from([1, 3]), ip),
        st.builds(lambda p, x, i: S("set_attributes", (p, x), i), pairs, xp, ip),
        st.builds(lambda p, x, i: S("remove_attributes", (p, x), i), names, xp, ip),
        st.builds(lambda x: S("append_to", (x,)), st.sampled_from(["/svg:svg", "/svg:svg", "(//svg:g)[1]", "(//svg:defs)[1]"])),
        st.just(S("checkpicosvg_drop")),
        st.sampled_from(QUERIES).map(S),
        st.sampled_from(QUERIES).map(S),
    )


@st.composite
def history_case(draw):
    if draw(st.integers(0, 2)) == 0:
        doc = D.CORPUS[draw(st.sampled_from(sorted(D.CORPUS)))]
    else:
        keys = draw(st.lists(st.sampled_from(sorted(D.FRAGMENTS)), min_size=1, max_size=4, unique=True))
        doc = D.compose(draw(st.integers(0, len(D.ROOT_ATTRS) - 1)), keys)
    steps = draw(st.lists(_step_strategy(), min_size=1, max_size=8))
    return {"doc": doc, "steps": steps}


_DOCNAME = {v: k for k, v in D.CORPUS.items()}


def describe(case):
    return {"doc": _DOCNAME.get(case["doc"], case["doc"]), "steps": [step_label(s) for s in case["steps"]]}


SHARDS = {"quick": 4, "thorough": 16}
SUBCHECKS = {
    "exh": Sub("exh", check_case, enumerate=enum_hist, describe=describe),
    "hist": Sub("hist", check_case, strategy=lambda ctx: history_case(), examples={"quick": 400, "thorough": 3000}, describe=describe),
}
