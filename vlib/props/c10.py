"""C10 - path data parses per the SVG grammar or is rejected; printing round-trips.

Oracle: vlib.refsvg.pathgrammar (own recursive-descent parser of the SVG 1.1 BNF).
"""
from __future__ import annotations

import itertools
import math

from hypothesis import strategies as st

from vlib.run import Result, Sub
from vlib.refsvg.pathgrammar import NARGS, PathSyntaxError, parse as ref_parse

from picosvg.svg_path_iter import parse_svg_path
from picosvg.svg_types import SVGPath

ID = "C10"
RULE = (
    "parse-differential: strings (exhaustive over prefixes x every string up to length N over the alphabet "
    "'MLzA01.-e, ', exhaustive short token sequences over 15 lexical number forms x 6 separators x commands, "
    "Hypothesis grammar-derived strings with random number spellings/separators and 0-3 character mutations, "
    "arbitrary unicode text) are parsed by an independent SVG 1.1 BNF parser (maximal munch) and by picosvg; "
    "if the reference accepts, picosvg must return the same exploded sequence or raise ValueError; no other "
    "exception type may escape on any string. roundtrip: command sequences with arbitrary finite floats "
    "(subnormal, huge, -0.0, beyond 2**53; arc radii of either sign; in a quarter of the cases commands carrying 2-3 argument "
    "sets, i.e. the non-exploded form, with H/V favoured) are serialised by SVGPath.from_commands and re-parsed, exploded and non-exploded. "
    "Non-trivial = reference-accepted string that picosvg also parsed (so the sequences were compared) with an adjacency feature (no separator between numbers, leading "
    "zero, leading/trailing dot, exponent, glued arc flag, implicit repeat) or, for roundtrip, a sequence "
    "containing a float whose str() uses an exponent, is subnormal, is >= 2**53 or is -0.0. Distinct = distinct "
    "string / sequence (enumerations are distinct by construction)."
)
ASSUMPTIONS = [
    "the reference parser implements the SVG 1.1 path BNF with maximal munch (self-tested on hand-written cases)",
    "numeric value of a number token = Python float(token) (correctly rounded)",
]


def _same(ref, got):
    if len(ref) != len(got):
        return f"length {len(got)} != expected {len(ref)}"
    for i, ((rc, ra), (gc, ga)) in enumerate(zip(ref, got)):
        if rc != gc:
            return f"command #{i}: {gc!r} != expected {rc!r}"
        if len(ra) != len(ga):
            return f"command #{i} {rc}: {len(ga)} args != expected {len(ra)}"
        for x, y in zip(ra, ga):
            if not (x == y):
                return f"command #{i} {rc}: arg {y!r} != expected {x!r}"
    return None


def _group(exploded):
    """exploded -> non-exploded form per picosvg's documented meaning (repeat args merged)."""
    out = []
    for i, (c, a) in enumerate(exploded):
        prev = out[-1][0] if out else None
        impl = None
        if prev is not None and out[-1][2] is not None:
            impl = out[-1][2]
        if out and c.lower() != "z" and impl == c and not exploded[i - 1][0] in "zZ":
            out[-1] = (out[-1][0], out[-1][1] + tuple(a), impl)
        else:
            nxt = {"M": "L", "m": "l"}.get(c, c)
            out.append((c, tuple(a), nxt))
    return [(c, a) for c, a, _ in out]


def check_parse(case) -> Result:
    d = case["d"]
    r = Result()
    try:
        ref, feats = ref_parse(d, want_features=True)
        accepted = True
    except PathSyntaxError:
        ref, feats, accepted = None, set(), False
    got = exc = None
    # call order alternates (by a hash of the string, so it is a pure function of the case): a result
    # must not depend on which form of the same string was parsed earlier in the process
    compact_first = (sum(map(ord, d)) + len(d)) % 2 == 1
    pre = None
    if compact_first:
        try:
            pre = list(parse_svg_path(d, exploded=False))
        except Exception:
            pre = None
    try:
        got = list(parse_svg_path(d, exploded=True))
    except ValueError:
        exc = "ValueError"
    except Exception as e:  # noqa
        r.bad("other-exception", f"parse_svg_path({d!r}) raised {type(e).__name__}: {e}")
        return r
    r.classes = ("accepted" if accepted else "not-conforming", "raises" if exc else "returns") + tuple(sorted(feats)) + (("long-run",) if len(d) > 500 else ())
    if accepted:
        r.classes += ("accepted&" + ("raises" if exc else "agrees"),)
        r.nontrivial = bool(feats) and exc is None
        if exc is None:
            m = _same(ref, got)
            if m:
                r.bad("silently-different", f"parse_svg_path({d!r}) -> {got!r}; grammar defines {ref!r}: {m}")
                r.info = {"expected": ref, "observed": got}
            else:
                # the non-exploded form, exploded by the documented rule, must agree too
                try:
                    g2 = list(parse_svg_path(d, exploded=False))
                except Exception as e:
                    r.bad("exploded-mismatch", f"exploded=True parses but exploded=False raises {type(e).__name__} on {d!r}")
                else:
                    flat = []
                    for c, a in g2:
                        n = NARGS[c.lower()]
                        if n == 0:
                            flat.append((c, ()))
                            continue
                        cur = c
                        for i in range(0, len(a), n):
                            flat.append((cur, tuple(a[i : i + n])))
                            cur = {"M": "L", "m": "l"}.get(cur, cur)
                    m2 = _same(ref, flat)
                    nletters = sum(1 for ch in d if ch.lower() in NARGS)
                    if not m2 and len(g2) != nletters:
                        m2 = f"non-exploded form has {len(g2)} commands for {nletters} command letters"
                    if not m2 and pre is not None and pre != g2:
                        m2 = f"two non-exploded parses of the same string differ: {pre!r} vs {g2!r}"
                    if m2:
                        r.bad("exploded-mismatch", f"parse_svg_path({d!r}, exploded=False) -> {g2!r} does not denote {ref!r}: {m2}")
    return r


# ------------------------------------------------------------------ generators

NUM_FORMS = ["0", "1", "00", "01", "10", "-1", "+1", ".5", "-.5", "1.5", "1.", "1e1", "1E-1", "1e+1", ".5e1"]
SEPS = ["", " ", ",", " , ", "\t", "\n"]


def _build_nums():
    ints = ["0", "1", "7", "10", "00", "01", "007", "42", "100", "9999"]
    fracs = ["0.5", "1.25", "00.50", "12.0", "3.14159", ".5", ".05", ".0", "1.", "0.", "10."]
    exps = ["", "", "", "e1", "E1", "e-1", "e+1", "E-02", "e0", "e10"]
    out = []
    for sign in ["", "", "-", "+"]:
        for body in ints + fracs:
            for e in exps:
                out.append(sign + body + e)
    return sorted(set(out))


_NUMS = _build_nums()
_UNSIGNED = [x for x in _NUMS if x[0] not in "+-"]
_SEPS = ["", "", " ", ",", " ,", ", ", "  ", " , ", "\t", "\n", "\r\n "]


_NUMS_F = [x for x in _NUMS if not x.rstrip("0123456789eE+-").endswith(".") and "." != x[-1] and ".e" not in x.lower()]
_UNSIGNED_F = [x for x in _NUMS_F if x[0] not in "+-"]
_SEPS_F = ["", "", " ", ",", " ,", ", ", "  ", " , "]


@st.composite
def grammar_string(draw, friendly=False):
    """friendly = only spellings picosvg is known to read (space/comma separators, no 'digits.'),
    so that the differential comparison is actually made instead of ending in ValueError."""
    NUM = st.sampled_from(_NUMS_F if friendly else _NUMS)
    UNS = st.sampled_from(_UNSIGNED_F if friendly else _UNSIGNED)
    SEP = st.sampled_from(_SEPS_F if friendly else _SEPS)
    _num = lambda: NUM
    _sep = lambda: SEP
    ncmd = draw(st.integers(0, 5))
    out = [draw(st.sampled_from(["", " "] if friendly else ["", " ", "\n"]))]
    letters = "MmLlHhVvCcSsQqTtAaZz"
    for k in range(ncmd + 1):
        c = draw(st.sampled_from("Mm")) if k == 0 else draw(st.sampled_from(letters))
        out.append(c)
        n = NARGS[c.lower()]
        if n == 0:
            out.append(draw(st.sampled_from(["", " "])))
            continue
        out.append(draw(st.sampled_from(["", "", " ", "  "])))
        reps = draw(st.sampled_from([1, 1, 1, 2, 3]))
        for rep in range(reps):
            if rep:
                out.append(draw(_sep()))
            if c.lower() == "a":
                parts = [draw(UNS), draw(UNS), draw(_num())]
                fl = [draw(st.sampled_from("01")), draw(st.sampled_from("01"))]
                xy = [draw(_num()), draw(_num())]
                s = parts[0] + draw(_sep()) + parts[1] + draw(_sep()) + parts[2]
                s += draw(st.sampled_from([" ", ",", " , ", "  "]))  # mandatory
                s += fl[0] + draw(_sep()) + fl[1] + draw(_sep()) + xy[0] + draw(_sep()) + xy[1]
                out.append(s)
            else:
                for j in range(n):
                    if j:
                        out.append(draw(_sep()))
                    out.append(draw(_num()))
        out.append(draw(st.sampled_from(["", "", " "])))
    return "".join(out)


@st.composite
def mutated(draw):
    s = draw(grammar_string(friendly=draw(st.booleans())))
    for _ in range(draw(st.integers(1, 3))):
        if not s:
            break
        i = draw(st.integers(0, len(s) - 1))
        kind = draw(st.integers(0, 3))
        if kind == 0:
            s = s[:i] + s[i + 1 :]
        elif kind == 1:
            s = s[:i] + s[i] + s[i:]
        elif kind == 2 and i + 1 < len(s):
            s = s[:i] + s[i + 1] + s[i] + s[i + 2 :]
        else:
            s = s[:i] + draw(st.sampled_from("MmLlZzAa01.-+eE, \t9")) + s[i:]
    return s


@st.composite
def long_run(draw):
    """Minifier-style data: hundreds to thousands of numbers glued together, delimited only by their sign or dot."""
    cmd = draw(st.sampled_from("lLtThvcqm"))
    arity = {"l": 2, "L": 2, "t": 2, "T": 2, "h": 1, "v": 1, "c": 6, "q": 4, "m": 2}[cmd]
    n = draw(st.sampled_from([150, 400, 700, 1100, 2000])) * arity
    style = draw(st.sampled_from(["minus", "dot", "mixed"]))
    toks = []
    for i in range(n):
        k = draw(st.integers(0, 9)) if i < 12 else (i * 7 + 3) % 10
        if style == "minus" or (style == "mixed" and i % 3):
            toks.append(f"-{k}")
        else:
            toks.append(f".{k}5")
    d = "M1 2" + cmd + "".join(toks)
    if draw(st.integers(0, 5)) == 0:
        d += draw(st.sampled_from(["x", "-", "M", "e"]))  # malformed tail: must be a ValueError, not something else
    return d


def parse_strategy(ctx):
    return st.one_of(
        long_run(),
        grammar_string(friendly=True),
        grammar_string(friendly=True),
        grammar_string(),
        mutated(),
        st.text(alphabet="MmLlHhVvCcSsQqTtAaZz0123456789.-+eE, \t\n", max_size=40),
        st.text(max_size=30),
    ).map(lambda d: {"d": d})


ALPHA = "MLzA01.-e, "
PREFIXES = ["M", "M0 0L", "M1 1A1 1 0 ", "M1,1A1 0 "]


def enum_chars(ctx, shard, nshards):
    nmax = {"quick": 5, "thorough": 7}[ctx.tier]
    if ctx.tier == "quick":
        nmax_by_prefix = {"M": 5, "M0 0L": 4, "M1 1A1 1 0 ": 5, "M1,1A1 0 ": 4}
    else:
        nmax_by_prefix = {"M": 7, "M0 0L": 6, "M1 1A1 1 0 ": 7, "M1,1A1 0 ": 6}
    ev = nt = 0
    classes = {}
    idx = 0
    for prefix in PREFIXES:
        for n in range(0, nmax_by_prefix[prefix] + 1):
            # shard on the first two characters of the tail
            for head in itertools.product(ALPHA, repeat=min(n, 2)):
                idx += 1
                if idx % nshards != shard:
                    continue
                if ctx.time_left() < 0:
                    ctx.budget_exhausted = True
                    ctx.exhaustive["chars"] = False
                    ctx.bulk("exh_chars", ev, nt, classes)
                    return
                for tail in itertools.product(ALPHA, repeat=n - len(head)):
                    d = prefix + "".join(head) + "".join(tail)
                    res = check_parse({"d": d})
                    ev += 1
                    if res.nontrivial:
                        nt += 1
                    for c in res.classes:
                        classes[c] = classes.get(c, 0) + 1
                    if res.violations:
                        for clause, msg in res.violations:
                            ctx.fail("parse", clause, msg, {"d": d}, res.info)
    ctx.exhaustive["chars<=%d" % nmax] = True
    ctx.bulk("exh_chars", ev, nt, classes)
    ctx.add_sample({"sub": "exh_chars", "case": {"d": "M" + "".join(ALPHA[(shard + i) % len(ALPHA)] for i in range(4))}})


def enum_tokens(ctx, shard, nshards):
    k = {"quick": 2, "thorough": 3}[ctx.tier]
    heads = ["M", "M0 0L", "M0 0H", "M0 0T", "M0 0 "]
    ev = nt = 0
    classes = {}
    idx = 0
    units = [(s, f) for s in SEPS for f in NUM_FORMS]
    for head in heads:
        for first in units:
            idx += 1
            if idx % nshards != shard:
                continue
            if ctx.time_left() < 0:
                ctx.budget_exhausted = True
                ctx.exhaustive["tokens"] = False
                ctx.bulk("exh_tokens", ev, nt, classes)
                return
            for rest in itertools.product(units, repeat=k - 1):
                d = head + "".join(s + f for s, f in (first,) + rest)
                res = check_parse({"d": d})
                ev += 1
                nt += 1 if res.nontrivial else 0
                for c in res.classes:
                    classes[c] = classes.get(c, 0) + 1
                for clause, msg in res.violations:
                    ctx.fail("parse", clause, msg, {"d": d}, res.info)
    # arcs with glued flags: A rx ry rot + every flag/sep spelling + xy forms
    arc_idx = 0
    for s0 in [" ", ","]:
        for f1, s1, f2, s2 in itertools.product("01", SEPS, "01", SEPS):
            for x, s3, y in itertools.product(NUM_FORMS, SEPS, NUM_FORMS if ctx.tier == "thorough" else NUM_FORMS[:6]):
                arc_idx += 1
                if arc_idx % nshards != shard:
                    continue
                d = f"M0 0A2 3 0{s0}{f1}{s1}{f2}{s2}{x}{s3}{y}"
                res = check_parse({"d": d})
                ev += 1
                nt += 1 if res.nontrivial else 0
                for c in res.classes:
                    classes[c] = classes.get(c, 0) + 1
                for clause, msg in res.violations:
                    ctx.fail("parse", clause, msg, {"d": d}, res.info)
    ctx.exhaustive["tokens<=%d" % k] = True
    ctx.bulk("exh_tokens", ev, nt, classes)
    ctx.add_sample({"sub": "exh_tokens", "case": {"d": "M0 0L" + "".join(s + f for s, f in units[7 * (shard + 1) % len(units) : 7 * (shard + 1) % len(units) + 2])}})


# ------------------------------------------------------------------ round trip


def _special(x: float) -> bool:
    if x == 0:
        return math.copysign(1, x) < 0
    return "e" in repr(x) or abs(x) >= 2**53 or abs(x) < 2.3e-308


def check_roundtrip(case) -> Result:
    cmds = [(c, tuple(float(a) if not isinstance(a, int) else a for a in args)) for c, args in case["cmds"]]
    r = Result()
    try:
        p = SVGPath.from_commands(cmds)
        d = p.d
        back = list(parse_svg_path(d, exploded=True))
        back2 = list(p)
    except Exception as e:
        r.bad("roundtrip-raises", f"serialise+parse of {cmds!r} raised {type(e).__name__}: {e}")
        return r
    r.nontrivial = any(isinstance(a, float) and _special(a) for _, args in cmds for a in args)
    r.classes = tuple(sorted({c for c, _ in cmds}))
    grouped = any(len(a) > NARGS[c.lower()] for c, a in cmds)
    if grouped:
        # a command may carry several argument sets (the non-exploded form the parser itself returns):
        # printed and parsed back non-exploded it is the same sequence; exploded it is the documented
        # expansion (the letter repeated, a moveto followed by implicit linetos)
        r.classes += ("grouped",)
        if any(c.lower() in "hv" and len(a) > 1 for c, a in cmds):
            r.classes += ("grouped-hv",)
        try:
            back_g = list(parse_svg_path(d, exploded=False))
        except Exception as e:
            r.bad("roundtrip-raises", f"non-exploded parse of the serialisation of {cmds!r} raised {type(e).__name__}: {e}")
            return r
        m = _same(cmds, back_g)
        if m:
            r.bad("roundtrip-differs", f"parse_svg_path(exploded=False): {cmds!r} -> d={d!r} -> {back_g!r}: {m}")
            r.info = {"d": d}
            return r
        flat = []
        for c, a in cmds:
            n = NARGS[c.lower()]
            cur = c
            for i in range(0, max(len(a), 1), max(n, 1)):
                flat.append((cur, tuple(a[i : i + n])))
                cur = {"M": "L", "m": "l"}.get(cur, cur)
        cmds = flat
    if any(c.lower() == "a" and (a[0] < 0 or a[1] < 0) for c, a in cmds):
        r.classes += ("negative-radius",)
    for name, b in (("parse_svg_path", back), ("iter(SVGPath)", back2)):
        m = _same(cmds, b)
        if m:
            r.bad("roundtrip-differs", f"{name}: {cmds!r} -> d={d!r} -> {b!r}: {m}")
            r.info = {"d": d}
            break
    else:
        if "negative-radius" in r.classes:
            # the SVG 1.1 BNF spells arc radii as nonnegative-number: the printed string is outside the
            # reference grammar by construction; the property only demands the round trip (judged above)
            return r
        # the reference grammar must accept what picosvg prints, with the same meaning
        try:
            ref = ref_parse(d)
        except PathSyntaxError as e:
            r.bad("prints-nonconforming", f"{cmds!r} serialised to {d!r} which the SVG grammar rejects: {e}")
        else:
            m = _same(cmds, ref)
            if m:
                r.bad("prints-different", f"{cmds!r} serialised to {d!r} which denotes {ref!r}: {m}")
    return r


def _floats():
    return st.one_of(
        st.floats(allow_nan=False, allow_infinity=False),
        st.floats(allow_nan=False, allow_infinity=False, width=32),
        st.floats(-1000, 1000),
        st.integers(-(2**60), 2**60).map(float),
        st.sampled_from([0.0, -0.0, 5e-324, -5e-324, 2.2250738585072014e-308, 1.7976931348623157e308, -1.7976931348623157e308, 1e16, 1e-7, 123456789.123456789, 2.0**53, 2.0**53 + 2, 1e22, 1e23, 0.1, 1 / 3]),
    )


@st.composite
def cmd_seq(draw):
    n = draw(st.integers(0, 6))
    out = []
    # exploded sequences the parser can return: first is a moveto; an "L" directly after
    # "M" would be re-read as implicit lineto and still be "L" -> equal
    letters = "MmLlHhVvCcSsQqTtAaZz"
    grouped = draw(st.integers(0, 3)) == 0
    neg_radii = draw(st.booleans())
    if grouped:
        letters = "MmLlHhVvHhVvCcSsQqTtAaZz"
    for k in range(n + 1):
        c = draw(st.sampled_from("Mm")) if k == 0 else draw(st.sampled_from(letters))
        na = NARGS[c.lower()]
        # several argument sets per command letter in about a quarter of the sequences
        nsets = draw(st.integers(1, 3)) if (grouped and na) else 1
        args = []
        for _ in range(nsets):
            if c.lower() == "a":
                # "any command sequence ... all finite floats": a radius may be negative (it denotes its
                # absolute value when drawn, but the round trip must return the number that was given)
                rx, ry = draw(_floats()), draw(_floats())
                if not neg_radii:
                    rx, ry = abs(rx), abs(ry)
                args += [rx, ry, draw(_floats()), draw(st.integers(0, 1)), draw(st.integers(0, 1)), draw(_floats()), draw(_floats())]
            else:
                args += [draw(_floats()) for _ in range(na)]
        out.append([c, args])
    return {"cmds": out}


def _rt_ok(case):
    # exploded form invariants: a repeated command right after the same command prints as a
    # separate command, so any sequence is a fixed point; but "M x y" followed by "M"... fine.
    return True


SUBCHECKS = {
    "parse": Sub("parse", check_parse, strategy=parse_strategy, examples={"quick": 1500, "thorough": 20000}),
    "exh_chars": Sub("exh_chars", check_parse, enumerate=enum_chars),
    "exh_tokens": Sub("exh_tokens", check_parse, enumerate=enum_tokens),
    "roundtrip": Sub("roundtrip", check_roundtrip, strategy=lambda ctx: cmd_seq(), examples={"quick": 1000, "thorough": 15000}),
}
