"""C03 - clip paths are rendered into exactly the clipped geometry."""
from __future__ import annotations

import re

from vlib.run import Result, Sub
from vlib.gen import docs
from vlib.props import rendercmp

ID = "C03"
RULE = (
    "Hypothesis draws documents from the structural grammar of C02 plus 1-3 clipPath elements (1-3 children of any "
    "fillable shape kind incl. self-intersecting paths, clip-rule nonzero/evenodd set on the children via attribute or "
    "style, or on the clipPath element itself (inherited by children without their own), transform lists on clipPath or children, clipPath referencing an earlier clipPath) referenced by clip-path on "
    "shapes, groups and use, stacked along ancestor chains, clip-path=none (attribute or style) on descendants of clipped ancestors; fill-rule of clipped shapes varied independently. Oracle: "
    "differential render with vlib.refsvg.render (clip region = union of children under their clip-rule in the user "
    "space of the referencing element incl. its own transform, intersected with the clipPath's own clip) - ordered "
    "paint stack and composited colour at every mutually trusted point (epsilon band 0.4% around every fill and clip "
    "edge); plus: the output text contains no clip-path/clipPath. Non-trivial = a clip is referenced by a rendered "
    "element, >=20 mutually trusted points of which >=3 are covered; distinct = distinct source text."
)
ASSUMPTIONS = [
    "vlib.refsvg.render clip semantics (self-tested); fences: clipPathUnits=objectBoundingBox, clip-path on clipPath children, display:none clipPath children",
]

CFG = docs.Cfg(transforms=True, groups=True, use=True, nested=False, display=False, clip=True, translucent_fill=True, max_leaves=5)
CFG_INHERIT = docs.Cfg(transforms=False, groups=True, use=False, nested=False, display=False, clip=True, clip_rule_on_clippath=True, max_leaves=3)


def check_doc(case) -> Result:
    r = Result()
    src = case["svg"]
    try:
        out = rendercmp.convert(src)
    except Exception as e:
        r.rejected = f"convert:{type(e).__name__}"
        return r
    if re.search(r"clip-path|clipPath", out):
        r.bad("clip-left-in-output", f"converted document still mentions a clip: {out[:300]}")
    feat = case.get("feat", [])
    r.classes = tuple(feat)
    # what the source looks like without any clip: tells whether clipping removed something
    stats = rendercmp.compare(src, out, r, what=("stack", "rgba"), strokes=False, gradients=False, attribute=not case.get("pinned"))
    if stats and not r.rejected:
        uses_clip = any(f.startswith("clip-on-") for f in feat)
        r.nontrivial = bool(uses_clip and stats["trusted"] >= 20 and stats["covered"] >= 3)
    return r


SUBCHECKS = {
    "doc": Sub("doc", check_doc, strategy=lambda ctx: docs.document(CFG), examples={"quick": 600, "thorough": 5000}, describe=lambda c: c["svg"]),
}
