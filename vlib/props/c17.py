"""C17 - conversion always terminates with a picosvg or an exception, never a hang.

Oracle: every case is converted by SVG.fromstring(doc).topicosvg() in a watchdogged worker
subprocess (vlib.c17_worker / vlib.c17_pool): RLIMIT_AS 2 GiB, 10 s of CPU time (ITIMER_PROF) inside
the worker, hard kill by the parent after 60 s of wall clock, inotify watch on canary files that only an external-entity /
DTD / include read could open.  What is allowed is decided here, from the worker's reply, by code
that shares nothing with picosvg: own output-grammar predicate (xml.etree/expat), own reference-graph
analysis of the generated document (vlib.c17_gen.analyse).
"""
from __future__ import annotations

import xml.etree.ElementTree as ET
from typing import Optional

from hypothesis import strategies as st

from vlib.run import Result, Sub
from vlib import c17_pool as pool
from vlib.c17_gen import analyse, hostile_doc, render

ID = "C17"
RULE = (
    "Hypothesis draws a document AST from an adversarial grammar and the check serialises it to well-formed XML: "
    "up to 7 use-containers (g/symbol/nested svg/use-with-id), 7 clipPaths and 7 gradients whose references "
    "(use href, clipPath's own clip-path, gradient href) are wired by a drawn plan - 'cycle' (ring of length 1-4 "
    "behind a lead-in chain of 0-2, optionally with the ring's containers nested so that the closing use points at "
    "an ancestor), 'dag' (acyclic, with fan-out of up to 4 uses per container) or 'random' (any target incl. self, "
    "dangling, wrong element type) - placed in defs/body/split defs, entered from body shapes (fill=url, clip-path=url, "
    "with/without transform), body uses and uses inside clipPaths; plus unsupported elements (text, image, style, "
    "script, filter, mask, pattern, marker, foreignObject, xi:include, foreign namespaces, PIs, comments, CDATA), "
    "namespace variants (xlink undeclared / unused, no svg namespace, prefixed svg), 1-3 attribute values replaced by "
    "malformed ones (numbers, transforms, viewBox, path data, points, style, url(), href), and a DOCTYPE with internal "
    "entities used in attributes/content (plain, nested, markup, 'laughs' of 1e3/1e6/1e9, declaration loops) and "
    "external SYSTEM/PUBLIC entities, external parameter entities and external DTD subsets that point at canary files. "
    "Each document is converted in a watchdogged subprocess, by SVG.fromstring(x).topicosvg() or (1 in 3) by the validate-then-convert idiom svg.checkpicosvg(); svg.topicosvg() on one object; allowed outcomes are a returned document that satisfies the "
    "picosvg grammar predicate output_ok() or any Python exception; violations are a timeout (10 s of CPU time, or 60 s of wall clock "
    "twice in a row, for an expanded size E <= 200 elements, E computed by an own use/clip expansion; documents with "
    "E > 200 are not run), MemoryError under "
    "RLIMIT_AS 2 GiB, death of the worker process, an output failing the grammar, a canary token in output/exception "
    "text, or any open/read of a canary file seen by inotify. "
    "Non-trivial = the document contains a reference cycle (use / clipPath / gradient href / mixed, found by the own "
    "reference-graph analysis), an entity reference, or a malformed attribute value; distinct = distinct document AST."
)
ASSUMPTIONS = [
    "time bound: 10 s of CPU time of the converting process (load independent) per document of expanded size <= 200 elements (normal cost ~10 ms, clipPath cycles ending in RecursionError ~1 s); the 60 s wall-clock kill only counts when it happens twice in a row",
    "symptoms that an unrelated process could cause (canary file opened, worker killed by SIGKILL/SIGTERM, wall-clock kill) are reported only if an immediate re-run of the same document reproduces them; SIGSEGV/SIGABRT deaths, CPU timeouts and MemoryError are reported at once",
    "an exception of any type (ValueError, RecursionError, XMLSyntaxError, ...) is an allowed way to finish; MemoryError is not",
    "inotify IN_OPEN|IN_ACCESS on the canary files sees every read by any layer of the worker process; if inotify is unavailable only token leaks are detected (noted in the evidence)",
    "network fetches (http:// system identifiers) are not observed; only local canary files are",
    "output_ok() is a minimal stand-in for the C01 validator: svg root, first child defs holding only gradients with stops, then only g/path",
]
SHARDS = {"quick": 4, "thorough": 16}

E_MAX = 200
SVG = "{http://www.w3.org/2000/svg}"


# ------------------------------------------------------------------ output grammar


def output_ok(svg_text: str) -> Optional[str]:
    """None if svg_text satisfies the picosvg grammar, else a reason.  The minimal structural predicate below
    is followed by the full README-grammar validator shared with C01."""
    r = _output_ok_minimal(svg_text)
    if r:
        return r
    from vlib.props.pico_grammar import validate

    # a gradient that has no stops in the (hostile) source has none in the output either: that is the
    # input's degeneracy, not an invention of the conversion, so that clause is not applied here
    bad = [b for b in validate(svg_text, 3, False) if b[0] != "gradient-stops"]
    return f"{bad[0][0]}: {bad[0][1]}" if bad else None


def _output_ok_minimal(svg_text: str) -> Optional[str]:
    if "<!--" in svg_text:
        return "contains a comment"
    if "<!DOCTYPE" in svg_text or "<!ENTITY" in svg_text:
        return "contains a DOCTYPE"
    try:
        root = ET.fromstring(svg_text)
    except ET.ParseError as e:
        return f"not well-formed XML: {e}"
    if root.tag != SVG + "svg":
        return f"root is {root.tag}, not svg"
    kids = list(root)
    if not kids or kids[0].tag != SVG + "defs":
        return "first child of svg is not defs"

    def no_text(el):
        if (el.text or "").strip():
            return f"character data inside {el.tag}"
        for c in el:
            if (c.tail or "").strip():
                return f"character data inside {el.tag}"
        return None

    r = no_text(root) or no_text(kids[0])
    if r:
        return r
    for gr in kids[0]:
        if gr.tag not in (SVG + "linearGradient", SVG + "radialGradient"):
            return f"defs contains {gr.tag}"
        r = no_text(gr)
        if r:
            return r
        for stop in gr:
            if stop.tag != SVG + "stop":
                return f"gradient contains {stop.tag}"
            if len(stop) or (stop.text or "").strip():
                return "stop has content"
    stack = list(kids[1:])
    while stack:
        el = stack.pop()
        if el.tag == SVG + "path":
            if len(el) or (el.text or "").strip():
                return "path has content"
        elif el.tag == SVG + "g":
            r = no_text(el)
            if r:
                return r
            stack.extend(el)
        else:
            return f"unexpected element {el.tag}"
    return None


# ------------------------------------------------------------------ the check


def _short(s, n=300):
    s = s if isinstance(s, str) else repr(s)
    return s if len(s) <= n else s[:n] + "..."


def check_doc(case) -> Result:
    r = Result()
    A = analyse(case)
    doc = render(case)
    cls = list(dict.fromkeys(A.classes))
    for fam, k in A.cycles.items():
        cls.append(f"cycle:{fam}")
        cls.append(f"cycle:{fam}:len{k}")
    for d in dict.fromkeys(A.dangling):
        cls.append("ref:" + d)
    for m in dict.fromkeys(A.malformed):
        cls.append("malformed:" + m)
    if not A.cycles:
        cls.append("acyclic:E<=20" if A.E <= 20 else "acyclic:E<=60" if A.E <= 60 else "acyclic:E<=200" if A.E <= E_MAX else "acyclic:E>200")
    if A.E > E_MAX:
        r.rejected = "expanded-size>200"
        return r
    r.nontrivial = bool(A.cycles) or A.has_entity_ref or bool(A.malformed)
    route = case.get("route", "topicosvg")
    cls.append("route:" + route)
    rep = pool.run(doc, route)
    # Process-level symptoms that something outside the conversion could also produce (another
    # process reading the canary files, an external SIGKILL/SIGTERM, a stalled machine) are only
    # reported when an immediate second run of the same document shows them again.
    external = (
        bool(rep.get("opened"))
        or rep["status"] == "hard-timeout"
        or (rep["status"] == "died" and rep.get("returncode") in (-9, -15, None))
    )
    if external:
        rep2 = pool.run(doc, route)
        same = rep2["status"] == rep["status"] and bool(rep2.get("opened")) == bool(rep.get("opened"))
        if not same:
            cls.append("unreproduced:" + ("canary-opened" if rep.get("opened") else rep["status"]))
        rep = rep2
    st = rep["status"]
    opened = rep.get("opened") or []
    info = {"doc": doc, "E": A.E, "elapsed_s": rep.get("elapsed"), "cpu_s": rep.get("cpu")}
    if st == "ok":
        out = rep["out"] or ""
        cls.append("outcome:picosvg")
        if rep.get("out_len", len(out)) == len(out):
            why = output_ok(out)
            if why:
                r.bad("output-grammar", f"conversion returned a document that is not a picosvg ({why}): {_short(out)}   input: {_short(doc, 600)}")
                info["output"] = _short(out, 4000)
        for tok in pool.TOKENS:
            if tok in out:
                r.bad("canary-leak", f"content of an external file (token {tok}) appears in the output: {_short(out)}   input: {_short(doc, 600)}")
                break
    elif st == "exc":
        cls.append("outcome:" + str(rep["exc_type"]))
        msg = rep.get("exc_msg") or ""
        for tok in pool.TOKENS:
            if tok in msg:
                r.bad("canary-leak", f"content of an external file (token {tok}) appears in the {rep['exc_type']} message: {_short(msg)}   input: {_short(doc, 600)}")
                break
        info["exception"] = f"{rep['exc_type']}: {_short(msg, 500)}"
    elif st in ("timeout", "hard-timeout"):
        cls.append("outcome:timeout")
        lim = f"{pool.SOFT_S:g} s of CPU time" if st == "timeout" else f"{pool.HARD_S:g} s (wall clock, twice in a row)"
        r.bad("timeout", f"conversion did not finish within {lim} (expanded size {A.E} elements; cycles {A.cycles or 'none'}): {_short(doc, 900)}")
    elif st == "memory":
        cls.append("outcome:memory")
        r.bad("memory", f"conversion ran into the {pool.MEM_LIMIT >> 20} MiB address-space limit (MemoryError) (expanded size {A.E}): {_short(doc, 900)}")
    else:  # died
        cls.append("outcome:worker-died")
        r.bad("worker-died", f"the converting process died ({pool.describe_signal(rep.get('returncode'))}) instead of returning or raising: {_short(doc, 900)}")
    if opened:
        r.bad("canary-opened", f"conversion opened/read external file(s) {opened} referenced by the document (outcome {st}): {_short(doc, 900)}")
    if pool.inotify_active() is False:
        cls.append("no-inotify")
    r.classes = tuple(dict.fromkeys(cls))
    if r.violations:
        r.info = info
    return r


def _describe(case):
    return render(case)


SUBCHECKS = {
    "doc": Sub(
        "doc",
        check_doc,
        strategy=lambda ctx: st.tuples(hostile_doc(), st.sampled_from(["topicosvg", "topicosvg", "check-then-convert"])).map(lambda t: dict(t[0], route=t[1])),
        examples={"quick": 380, "thorough": 1500},
        describe=_describe,
        shrink_s=45.0,
    ),
}
