"""C20 - a reported reuse transform really maps one shape onto the other.

Oracle: own path interpreter (vlib.c20_ref, no picosvg import) turns both shapes into absolute
control points command for command; the matrix returned by affine_between() is applied to the
first shape's points with own arithmetic and compared with the second shape.  Arcs are compared
as true curves (own centre parameterisation, sampled).
"""
from __future__ import annotations

import json
import math
import os

from hypothesis import assume, strategies as st

from vlib.run import Result, Sub
from vlib import c20_ref as R

from picosvg.svg_reuse import affine_between
from picosvg.svg_types import SVGPath

ID = "C20"
RULE = (
    "s1 is a random path: 1-3 subpaths, 2-6 drawing commands each out of L l H h V v C c S s Q q T t (sub 'arcs': "
    "also A a), absolute and relative, closed or open, later subpaths started with M or m, coordinates on a decimal "
    "lattice of size 8/60/400 with 0-3 decimals, at least 4 distinct control points that are not collinear. "
    "sub 'image': s2 = T(s1) computed by the check's own interpreter for T in identical / translation / rotation / "
    "uniform scale / similarity / axis-aligned non-uniform scale / axis mirror / scale or mirror perpendicular to the "
    "first edge / general affine (shear), re-spelled with absolute or relative commands per command (or with s1's own "
    "letters for translations), optionally rounded to a grid finer than tolerance/4. sub 'nearmiss': near-miss (one "
    "coordinate of T(s1) after the first moveto moved by 1.05-5 x tolerance), unrelated (same letters, fresh numbers), "
    "letter-swap (one command letter replaced by another of the same arity, numbers kept), prefix (one shape is the "
    "other plus extra commands), jitter (every written number moved by < tolerance, or one by 1.5-5 x). sub 'arcs': "
    "image and near-miss classes for shapes containing elliptical arcs (well-conditioned: lambda <= 0.7 or 1.5..25, radii "
    ">= 50 x tolerance; others rejected) plus same-arc-params (points are the image under a rotation / similarity / "
    "mirror / axis scale while the arcs keep their written rotation and flags, radii scaled by the basis lengths) and "
    "arc-flag-flip (one large-arc or sweep flag inverted). Tolerance: 1e-3..1 (fixed decades and log-uniform). "
    "Oracle: if affine_between(s1,s2,tol) returns A, both shapes must have the same normalised command sequence (M L Q "
    "C A Z after own expansion of H/V/S/T) and A applied to s1 must agree with s2 under at least one reading of "
    "'within tolerance, command for command': per-command deltas (the relative form, first moveto absolute), absolute "
    "control points, or - for A == identity and identical letters - the numbers as written; slack tol*1e-6+5e-9. Arcs "
    "additionally: the image under A of the true arc of s1 (sampled) must stay within 12*N*tol + 3% of the largest "
    "radius of the true arc of s2 (N = number of commands), both directions. Completeness only where the property "
    "states it: identical command lists -> exactly the identity; exact translation -> some A is returned (and "
    "verifies). An exception counts as a violation only in those two classes, otherwise as a rejection. "
    "Non-trivial = a transform other than the identity was returned (so a non-trivial answer was verified); distinct = "
    "distinct (s1, s2, tolerance) case. Classes: T kind, pair class, tolerance decade, stage that answered (inferred "
    "from the form of A), structure features."
)
ASSUMPTIONS = [
    "own interpreter vlib/c20_ref.py implements SVG 1.1 path semantics (current point, z returns to the subpath start, shorthand reflection only after the same family); cross-checked against vlib/refsvg/geom.py in its self-test",
    "'within the given tolerance, command for command' is satisfied if ANY of the delta / absolute / as-written readings holds (the check never demands the strictest one)",
    "Affine2D(a,b,c,d,e,f) maps (x,y) to (a*x+c*y+e, b*x+d*y+f) (SVG matrix convention)",
    "an exception escaping affine_between for non-identical, non-translated pairs is 'no transform reported'",
]

IDENT = (1.0, 0.0, 0.0, 1.0, 0.0, 0.0)


def _open_findings():
    """clause -> finding id for OPEN entries of known_findings.json of this property that list the
    violation clauses they explain ("clauses": [...]).  Such violations are counted as excluded
    instead of failing the run; the pinned replay of the finding carries "pinned": true in its case
    and is never neutralised.  (Read only; nothing is listed at the time of writing.)"""
    try:
        with open(os.path.join(os.environ.get("VERIF_HOME", os.path.dirname(os.path.dirname(os.path.dirname(os.path.abspath(__file__))))), "known_findings.json")) as f:
            ks = json.load(f).get("findings", [])
    except (OSError, ValueError):
        return {}
    out = {}
    for k in ks:
        if k.get("property") == ID and k.get("status") == "open":
            for cl in k.get("clauses", []):
                out[cl] = k["id"]
    return out


KNOWN_OPEN = _open_findings()


def _slack(tol):
    return tol * 1e-6 + 5e-9


def _answer_class(A):
    if A is None:
        return "ans:none"
    a, b, c, d, e, f = A
    if tuple(A) == IDENT:
        return "ans:identity"
    if (a, b, c, d) == (1, 0, 0, 1):
        return "ans:translation(stage1)"
    m = max(abs(a), abs(b), abs(c), abs(d), 1e-12)
    if abs(a - d) <= 1e-6 * m and abs(b + c) <= 1e-6 * m:
        return "ans:similarity(stage2)"
    if a * d - b * c < 0:
        return "ans:mirror(stage3)"
    return "ans:nonuniform(stage3)"


def _tol_class(tol):
    return f"tol:1e{int(math.floor(math.log10(tol) + 1e-9))}"


def check_pair(case) -> Result:
    r = Result()
    c1 = [(c, tuple(float(x) for x in a)) for c, a in case["s1"]]
    c2 = [(c, tuple(float(x) for x in a)) for c, a in case["s2"]]
    tol = float(case["tol"])
    kind = case.get("kind", "?")
    pair = case.get("pair", "image")
    expect = case.get("expect")  # None | "identity" | "found"
    try:
        n1, n2 = R.normalise(c1), R.normalise(c2)
    except R.PathError as e:
        r.rejected = f"oracle:{e}"
        return r
    has_arc = any(k == "A" for k, *_ in n1) or any(k == "A" for k, *_ in n2)
    if has_arc:
        why = R.arcs_ill_conditioned(n1, tol) or R.arcs_ill_conditioned(n2, tol)
        if why:
            r.rejected = "arc-fenced:" + why
            return r
    d1, d2 = R.to_d(c1), R.to_d(c2)
    try:
        A = affine_between(SVGPath(d=d1, id=case.get("id1", "")), SVGPath(d=d2, id=case.get("id2", "")), tol)
    except Exception as e:  # noqa: BLE001
        if expect:
            r.classes = (f"T:{kind}", f"pair:{pair}")
            r.bad("raises", f"affine_between raised {type(e).__name__}: {e} for {pair}/{kind} pair {d1!r} -> {d2!r} tol={tol}")
            return r
        r.rejected = type(e).__name__
        return r
    A = None if A is None else tuple(float(v) for v in A)
    nsub = sum(1 for k, *_ in n1 if k == "M")
    letters = "".join(c for c, _ in c1)
    cls = [f"T:{kind}", f"pair:{pair}", _tol_class(tol), _answer_class(A)]
    if nsub > 1:
        cls.append("multi-subpath")
    if any(ch in "SsTt" for ch in letters):
        cls.append("has-shorthand")
    if has_arc:
        cls.append("has-arc")
    if case.get("spell"):
        cls.append(f"spell:{case['spell']}")
    r.classes = tuple(cls)
    r.nontrivial = A is not None and A != IDENT

    if expect == "identity" and A != IDENT:
        r.bad("identical-not-identity", f"identical shapes {d1!r} gave {A} instead of the identity (tol={tol})")
    if expect == "found" and A is None:
        r.bad("translation-not-found", f"exact translation by {case.get('T')} not found: {d1!r} -> {d2!r} tol={tol}")
    if A is None:
        return r
    if not all(math.isfinite(v) for v in A):
        r.bad("outline-mismatch", f"non-finite matrix {A} reported for {d1!r} -> {d2!r}")
        return r

    k1 = "".join(k for k, *_ in n1)
    k2 = "".join(k for k, *_ in n2)
    if k1 != k2:
        r.bad("structure-mismatch", f"{A} reported although the command sequences differ ({k1} vs {k2}): {d1!r} -> {d2!r} tol={tol}")
        r.info = {"A": A}
        return r
    lim = tol + _slack(tol)
    w_rel, w_abs, where_rel, where_abs = R.worst_errors(n1, n2, A)
    w_raw = R.raw_error(c1, c2) if A == IDENT else None
    ok = w_rel <= lim or w_abs <= lim or (w_raw is not None and w_raw <= lim)
    r.info = {"A": A, "worst_delta_error": w_rel, "worst_absolute_error": w_abs, "worst_as_written_error": w_raw}
    if not ok:
        r.bad(
            "outline-mismatch",
            f"reported {A} does not map s1 onto s2 within tol={tol}: worst per-command delta error {w_rel:.6g} (command #{where_rel}), "
            f"worst absolute error {w_abs:.6g} (command #{where_abs})"
            + (f", worst as-written error {w_raw:.6g}" if w_raw is not None else "")
            + f"; s1={d1!r} s2={d2!r} [{pair}/{kind}]",
        )
        return r
    if has_arc:
        m = R.arc_curve_mismatch(n1, n2, A, tol)
        if m:
            i, m = m
            det = A[0] * A[3] - A[1] * A[2]
            if n1[i][3][3:] != n2[i][3][3:]:
                cause = "flags"  # written flags differ (accepted because flags are compared with the tolerance)
            else:
                cause = "mirror" if det < 0 else "rotation-or-scale"
            clause = f"arc-curve-mismatch({cause})"
            if clause in KNOWN_OPEN and not case.get("pinned"):
                r.excluded = KNOWN_OPEN[clause]
                return r
            r.bad(clause, f"reported {A}: {m}; s1={d1!r} s2={d2!r} tol={tol} [{pair}/{kind}]")
    return r


# ------------------------------------------------------------------ generators

TOLS = [1e-3, 1e-3, 1e-2, 1e-2, 0.1, 0.1, 1.0, 3e-3, 0.03, 0.3]


def _tol():
    return st.one_of(st.sampled_from(TOLS), st.floats(-3, 0).map(lambda e: float(f"{10.0 ** e:.3g}")))


NARG = R.NARGS
DRAW = "LlHhVvCcSsQqTt"
DRAW_W = "LLllHhVvCcSsQqTtLlCcQq"


@st.composite
def _letters(draw, arcs=False):
    """Letter sequence of a path: list of str."""
    nsub = draw(st.sampled_from([1, 1, 1, 2, 2, 3]))
    out = []
    pool = DRAW_W + ("AAaaAa" * 2 if arcs else "")
    for i in range(nsub):
        out.append("M" if i == 0 else draw(st.sampled_from("Mmm")))
        if i == 0 and draw(st.integers(0, 19)) == 0:
            out[-1] = "m"
        n = draw(st.integers(2, 6))
        seq = [draw(st.sampled_from(pool)) for _ in range(n)]
        if i == 0 and draw(st.integers(0, 3)) == 0:
            seq[0] = draw(st.sampled_from("Hh"))
        if arcs and not any(ch in "Aa" for ch in seq) and i == 0:
            seq[draw(st.integers(0, n - 1))] = draw(st.sampled_from("Aa"))
        out.extend(seq)
        closer = draw(st.sampled_from(["z", "z", "Z", None]))
        if closer:
            out.append(closer)
    return out


@st.composite
def _args_for(draw, letters, S, q, rmin=0.0):
    """Numbers for a letter sequence on the lattice (size S, q decimals).  Arc end points are drawn
    relative to the radii (mostly comfortably inside the ellipse, sometimes far too long a chord) so that
    the arcs are well conditioned; absolute arcs are converted afterwards by _shape."""
    k = 10**q
    big = st.integers(-S * k, S * k).map(lambda v: v / k)
    small = st.integers(-(S * k) // 2, (S * k) // 2).map(lambda v: v / k)
    lo = max(S / 8.0, rmin)
    rad = st.integers(int(math.ceil(lo * k)), int(max(S, 2 * lo) * k)).map(lambda v: v / k)
    unit = st.integers(-100, 100).map(lambda v: v / 100.0)
    cmds = []
    for i, l in enumerate(letters):
        lc = l.lower()
        src = big if (l.isupper() or i == 0) else small
        if lc == "a":
            rx = draw(rad)
            ry = rx if draw(st.integers(0, 3)) == 0 else draw(rad)
            rot = draw(st.sampled_from([0.0, 0.0, 0.0, 30.0, 90.0, 90.0, 270.0, 180.0, -45.0, 17.5]))
            if draw(st.integers(0, 4)) == 0:  # chord much longer than the ellipse: radii get scaled up
                dx, dy = 3.0 * max(rx, ry) * draw(st.sampled_from([1, -1])), max(rx, ry) * draw(unit)
                if draw(st.integers(0, 1)):
                    dx, dy = dy, dx
            else:
                dx, dy = 1.1 * min(rx, ry) * draw(unit), 1.1 * min(rx, ry) * draw(unit)
            cmds.append([l, [rx, ry, rot, draw(st.integers(0, 1)), draw(st.integers(0, 1)), round(dx, q), round(dy, q)]])
        else:
            cmds.append([l, [draw(src) for _ in range(NARG[lc])]])
    return cmds


@st.composite
def _shape(draw, arcs=False, letters=None, S=None, q=None, rmin=0.0):
    if S is None:
        S = draw(st.sampled_from([60, 8, 60, 400, 400]))
    if q is None:
        q = draw(st.sampled_from([1, 0, 2, 3]))
    if letters is None:
        letters = draw(_letters(arcs))
    cmds = draw(_args_for(letters, S, q, rmin))
    zi = next((i for i, (c, _) in enumerate(cmds) if c in "zZ"), None)
    if zi is not None and draw(st.integers(0, 3)) == 0:
        # the last drawn edge of the first subpath returns explicitly to its start point before the closepath
        # (what most exporters write): with decimal coordinates the summed relative offsets miss the start by float
        # noise, so whatever "snaps" such an end point must do it the same way wherever the shape sits
        cmds.insert(zi, ["L", [cmds[0][1][0], cmds[0][1][1]]])
    if any(c == "A" for c, _ in cmds):
        # the arc deltas were drawn relative: place absolute arcs at current point + delta
        as_rel = [(("a" if c == "A" else c), tuple(a)) for c, a in cmds]
        norm = R.normalise(as_rel)
        for (c, a), (K, cur, pts, _) in zip(cmds, norm):
            if c == "A":
                a[5], a[6] = pts[0]
    return cmds, S, q


def _tol_and_size(draw, arcs):
    tol = draw(_tol())
    if not arcs:
        return tol, None, 0.0
    S = 400 if tol > 0.15 else draw(st.sampled_from([60, 400]))
    return tol, S, 52.0 * tol


T_KINDS = [
    "similarity",
    "translate",
    "translate",
    "rotate",
    "uniform-scale",
    "similarity",
    "similarity",
    "axis-scale",
    "axis-mirror",
    "edge-scale",
    "edge-scale",
    "edge-mirror",
    "edge-mirror",
    "general-affine",
    "identical",
]


@st.composite
def _transform(draw, kind, norm1, S):
    """6-tuple for the kind."""
    ang = st.one_of(st.sampled_from([90.0, 180.0, 270.0, 45.0, 30.0, -60.0]), st.floats(-180, 180).map(lambda v: round(v, 2)))
    fac = st.one_of(st.sampled_from([0.5, 2.0, 3.0, 0.25, 1.5]), st.floats(0.2, 5).map(lambda v: round(v, 3)))
    off = st.one_of(st.sampled_from([0.0, 1.0, 10.0, -25.0, 100.0]), st.integers(-3000 * S, 3000 * S).map(lambda v: v / 1000.0))
    tx, ty = (draw(off), draw(off)) if draw(st.integers(0, 3)) else (0.0, 0.0)
    if kind == "identical":
        return IDENT
    if kind == "translate":
        tx, ty = draw(off), draw(off)
        if draw(st.integers(0, 9)) == 0:
            tx, ty = tx / 1e4, ty / 1e4  # tiny translation (possibly below tolerance)
        if (tx, ty) == (0.0, 0.0):
            tx = 1.0
        return (1.0, 0.0, 0.0, 1.0, tx, ty)
    if kind == "rotate":
        return R.compose(R.rot(draw(ang)), (1, 0, 0, 1, tx, ty))
    if kind == "uniform-scale":
        k = draw(fac)
        return R.compose((k, 0, 0, k, 0, 0), (1, 0, 0, 1, tx, ty))
    if kind == "similarity":
        k = draw(fac)
        return R.compose(R.rot(draw(ang)), (k, 0, 0, k, 0, 0), (1, 0, 0, 1, tx, ty))
    if kind == "axis-scale":
        return R.compose((draw(fac), 0, 0, draw(fac), 0, 0), (1, 0, 0, 1, tx, ty))
    if kind == "axis-mirror":
        sx, sy = draw(st.sampled_from([(-1.0, 1.0), (1.0, -1.0), (-1.0, 1.0), (1.0, -1.0), (-2.0, 1.0), (1.0, -0.5)]))
        return R.compose((sx, 0, 0, sy, 0, 0), (1, 0, 0, 1, tx, ty))
    if kind in ("edge-scale", "edge-mirror"):
        # scale / mirror perpendicular to the first edge of s1, then rotate + uniform scale + move
        e = R.first_edge(norm1)
        alpha = math.degrees(math.atan2(e[1], e[0])) if e else 0.0
        m = draw(fac)
        if kind == "edge-mirror":
            m = -m if draw(st.integers(0, 1)) else -1.0
        k = draw(st.sampled_from([1.0, 1.0, 2.0, 0.5])) if draw(st.integers(0, 1)) else draw(fac)
        phi = draw(st.sampled_from([None, None, 0.0])) if draw(st.integers(0, 1)) else draw(ang)
        if phi is None:
            phi = alpha  # keep the first edge's direction
        return R.compose(R.rot(-alpha), (k, 0, 0, k * m, 0, 0), R.rot(phi), (1, 0, 0, 1, tx, ty))
    # general affine: shear included
    g = st.integers(-300, 300).map(lambda v: v / 100.0)
    a, b, c, d = draw(g), draw(g), draw(g), draw(g)
    assume(abs(a * d - b * c) > 0.05)
    return (a, b, c, d, tx, ty)


def _spell_flags(draw, n):
    mode = draw(st.sampled_from(["abs", "rel", "mixed", "mixed"]))
    if mode == "abs":
        return mode, [True] * n
    if mode == "rel":
        return mode, [False] * n
    return mode, [bool(b) for b in draw(st.lists(st.integers(0, 1), min_size=n, max_size=n))]


def _image(draw, cmds1, norm1, T, kind, tol):
    """s2 = T(s1) as raw commands; returns (cmds2, spell, exact)."""
    if kind == "identical":
        return [[c, list(a)] for c, a in cmds1], "same", True
    if kind == "translate" and draw(st.integers(0, 2)) == 0:
        return R.shift_written(cmds1, T[4], T[5]), "same-letters", True
    n2 = R.apply(norm1, T)
    spell, flags = _spell_flags(draw, len(n2))
    cmds2 = R.spell(n2, flags)
    exact = True
    if draw(st.integers(0, 4)) == 0:
        # written with limited precision, grid finer than tol/4 (so noise in a delta < tol/4)
        step = 10.0 ** math.floor(math.log10(tol / 4))
        nd = max(0, int(round(-math.log10(step))))
        cmds2 = [[c, [round(v, nd) if (c not in "Aa" or i >= 5) else v for i, v in enumerate(a)]] for c, a in cmds2]
        spell += "+rounded"
        exact = False
    return cmds2, spell, exact


def _good_shape(norm, S):
    pts = R.control_points(norm)
    ds = sorted(set(pts))
    if len(ds) < 4:
        return False
    return R.max_triangle_area(ds) > (S / 8.0) ** 2


@st.composite
def image_case(draw, arcs=False):
    tol, S, rmin = _tol_and_size(draw, arcs)
    cmds1, S, q = draw(_shape(arcs, S=S, rmin=rmin))
    norm1 = R.normalise([(c, tuple(a)) for c, a in cmds1])
    assume(_good_shape(norm1, S))
    kind = draw(st.sampled_from(T_KINDS))
    T = draw(_transform(kind, norm1, S))
    cmds2, spell, exact = _image(draw, cmds1, norm1, T, kind, tol)
    case = {"s1": cmds1, "s2": cmds2, "tol": tol, "kind": kind, "pair": "image", "T": list(T), "spell": spell}
    if kind == "identical":
        case["expect"] = "identity"
        if draw(st.integers(0, 3)) == 0:
            case["id1"], case["id2"] = "a", "b"
    elif kind == "translate" and exact:
        case["expect"] = "found"
    return case


def _perturb_one(draw, cmds2, tol, lo=1.05, hi=5.0):
    """Move one written coordinate after the first command by lo..hi x tol ("slightly more than the tolerance")."""
    idxs = [i for i, (c, a) in enumerate(cmds2) if i > 0 and len(a) > 0]
    i = idxs[draw(st.integers(0, len(idxs) - 1))]
    c, a = cmds2[i]
    js = list(range(len(a))) if c not in "Aa" else [0, 1, 5, 6]
    j = js[draw(st.integers(0, len(js) - 1))]
    f = draw(st.sampled_from([1.1, 1.2, 1.3, -1.15, -1.25, 1.5, 2.0, 3.0, 5.0, -1.5, -2.5, -4.0])) if draw(st.integers(0, 1)) else draw(st.floats(lo, hi)) * draw(st.sampled_from([1, -1]))
    out = [[cc, list(aa)] for cc, aa in cmds2]
    out[i][1][j] = out[i][1][j] + f * tol
    return out


SWAPS = {2: "LlTtMm", 1: "HhVv", 4: "QqSs", 6: "Cc"}
NEAR_KINDS = ["translate", "identical", "translate", "rotate", "similarity", "axis-scale", "axis-mirror", "edge-scale", "edge-mirror"]


@st.composite
def nearmiss_case(draw, arcs=False):
    tol, S, rmin = _tol_and_size(draw, arcs)
    cmds1, S, q = draw(_shape(arcs, S=S, rmin=rmin))
    norm1 = R.normalise([(c, tuple(a)) for c, a in cmds1])
    assume(_good_shape(norm1, S))
    pairs = ["near-miss", "near-miss", "near-miss", "unrelated", "letter-swap", "prefix", "prefix", "jitter-in", "jitter-out"]
    if arcs:
        pairs = ["same-arc-params", "same-arc-params", "same-arc-params", "arc-flag-flip", "near-miss", "near-miss", "unrelated", "jitter-in", "jitter-out", "prefix"]
    pair = draw(st.sampled_from(pairs))
    kind = "n/a"
    T = IDENT
    spell = None
    if pair == "near-miss":
        kind = draw(st.sampled_from(NEAR_KINDS))
        T = draw(_transform(kind, norm1, S))
        cmds2, spell, _ = _image(draw, cmds1, norm1, T, kind, tol)
        cmds2 = _perturb_one(draw, cmds2, tol)
    elif pair == "same-arc-params":
        # end points and control points are the image under T, the arcs keep their written parameters
        # (radii scaled by the lengths of T's basis vectors, rotation and flags as in s1)
        kind = draw(st.sampled_from(["rotate", "similarity", "axis-mirror", "edge-mirror", "rotate", "axis-scale", "axis-scale", "axis-scale"]))
        T = draw(_transform(kind, norm1, S))
        items = []
        for K, pts, params in R.apply(norm1, T):
            items.append((K, pts, params))
        kx, ky = math.hypot(T[0], T[1]), math.hypot(T[2], T[3])
        items = [(K, pts, (p1[0] * kx, p1[1] * ky, p1[2], p1[3], p1[4]) if K == "A" else None) for (K, pts, _), (_, _, _, p1) in zip(items, norm1)]
        spell, flags = _spell_flags(draw, len(items))
        cmds2 = R.spell(items, flags)
    elif pair == "arc-flag-flip":
        cmds2 = [[c, list(a)] for c, a in cmds1]
        cand = [i for i, (c, a) in enumerate(cmds2) if c in "Aa"]
        i = cand[draw(st.integers(0, len(cand) - 1))]
        j = draw(st.sampled_from([3, 4, 4]))
        cmds2[i][1][j] = 1 - cmds2[i][1][j]
        if draw(st.integers(0, 1)):
            kind = "translate"
            T = draw(_transform(kind, norm1, S))
            cmds2 = R.shift_written(cmds2, T[4], T[5])
    elif pair == "unrelated":
        cmds2, _, _ = draw(_shape(arcs, letters=[c for c, _ in cmds1], S=S, q=q, rmin=rmin))
    elif pair == "letter-swap":
        cand = [i for i, (c, a) in enumerate(cmds1) if i > 0 and len(a) in SWAPS]
        i = cand[draw(st.integers(0, len(cand) - 1))]
        c, a = cmds1[i]
        others = [x for x in SWAPS[len(a)] if x != c]
        cmds2 = [[cc, list(aa)] for cc, aa in cmds1]
        cmds2[i][0] = draw(st.sampled_from(others))
        if draw(st.integers(0, 1)):
            kind = "translate"
            T = draw(_transform(kind, norm1, S))
            cmds2 = R.shift_written(cmds2, T[4], T[5])
    elif pair == "prefix":
        kind = draw(st.sampled_from(["identical", "translate"]))
        T = draw(_transform(kind, norm1, S))
        extra, _, _ = draw(_shape(False, S=S, q=q))
        cut = draw(st.integers(1, len(extra)))
        extra = extra[:cut] if draw(st.integers(0, 1)) else extra
        if draw(st.integers(0, 2)) == 0:
            extra = extra[1:] or extra  # continue the last subpath instead of opening a new one
            extra = [e for e in extra if e[0] not in "Mm"] or extra
        longer = [[c, list(a)] for c, a in cmds1] + extra
        if draw(st.integers(0, 1)):
            cmds2 = R.shift_written(longer, T[4], T[5])
        else:
            cmds2 = R.shift_written(cmds1, T[4], T[5])
            cmds1 = longer
    else:  # jitter
        cmds2 = []
        for c, a in cmds1:
            na = []
            for j, v in enumerate(a):
                if c in "Aa" and j in (3, 4):
                    na.append(v)
                else:
                    na.append(v + draw(st.integers(-90, 90)) / 100.0 * tol)
            cmds2.append([c, na])
        if pair == "jitter-out":
            cmds2 = _perturb_one(draw, cmds2, tol, 2.5, 6.0)
    case = {"s1": cmds1, "s2": cmds2, "tol": tol, "kind": kind, "pair": pair, "T": list(T)}
    if spell:
        case["spell"] = spell
    return case


@st.composite
def arc_case(draw):
    if draw(st.integers(0, 1)) == 0:
        return draw(nearmiss_case(arcs=True))
    return draw(image_case(arcs=True))


def _describe(case):
    return {"s1": R.to_d(case["s1"]), "s2": R.to_d(case["s2"]), "tol": case["tol"], "pair": case.get("pair"), "T": case.get("kind")}


SUBCHECKS = {
    "image": Sub("image", check_pair, strategy=lambda ctx: image_case(), examples={"quick": 1500, "thorough": 14000}, describe=_describe),
    "nearmiss": Sub("nearmiss", check_pair, strategy=lambda ctx: nearmiss_case(), examples={"quick": 1200, "thorough": 12000}, describe=_describe),
    "arcs": Sub("arcs", check_pair, strategy=lambda ctx: arc_case(), examples={"quick": 600, "thorough": 6000}, describe=_describe, shrink_s=15.0),
}
