"""C16 - output bytes depend only on input bytes and options.

Oracle: subprocess comparison.  The digest of every conversion made in any configuration (other hash seed,
other process, long-lived process after other documents, any batch order, repeated) must equal the digest
of the same document converted ALONE in a FRESH interpreter with PYTHONHASHSEED=0.  The worker
(vlib/c16_worker.py) inherits the environment of ./check except PYTHONHASHSEED.
"""
from __future__ import annotations

import concurrent.futures
import difflib
import hashlib
import json
import os
import re
import subprocess
import sys

from hypothesis import strategies as st

from vlib.run import Result, Sub
from vlib import c16_gen

ID = "C16"
RULE = (
    "A case is a batch of documents plus a set of process configurations. Documents: 'corpus' = files of the "
    "repo's tests/*.svg (each shard owns a slice of the 151 files; quick draws 6-10 of them per case, thorough "
    "takes the whole slice), 'generated' = 4-8 Hypothesis-built documents per batch assembled from ONE shared pool "
    "of primitives, paints (round/square caps, joins, dashes, opacity, style= spelling), gradients (templates, "
    "percent/userSpaceOnUse, ids that look like generated ids), transforms; bodies contain shapes, groups with "
    "inherited attributes and typography / unknown attributes (font-size, font-family, letter-spacing, class, ...), <use>, clip paths, nested <svg>, <text>/<tspan> (passed through with allow_text), "
    "editor noise and unknown elements; about 40% of the documents are variants of an earlier document of the "
    "batch (same body, other viewBox), a quarter is followed by a near-duplicate (same text with ONE presentation value altered: dash offset, width, cap, join, ...) and 0-2 repo files are mixed in. Per-document options: ndigits, allow_text, "
    "drop_unsupported, pretty_print, clip_to_viewbox. Configurations per case: 1-2 long-lived interpreters, each "
    "with a PYTHONHASHSEED from {0,1,2,12345} or a drawn 32-bit value ('random' made replayable) converting the "
    "batch in 3-8 Hypothesis-drawn permutations one after the other (optionally every document twice in a row), "
    "plus 0-3 fresh single-document interpreters with another (or the same) hash seed. Oracle: sha256 of "
    "topicosvg(**opts)[.clip_to_viewbox()].tostring() of every conversion equals the digest of that document "
    "converted alone in a fresh interpreter with PYTHONHASHSEED=0; a conversion that raises must raise the same "
    "exception type everywhere. Non-trivial = the batch holds a document that converts and whose conversion "
    "allocates generated ids (output has ids absent from the input), instantiates <use>, stamps inherited "
    "attributes (a <g>/<svg> with presentation attributes or style and children) or passes text through. "
    "Distinct = distinct case (documents, options, seeds and permutations)."
)
ASSUMPTIONS = [
    "a fresh interpreter with PYTHONHASHSEED=0 converting one document is the reference behaviour ('alone')",
    "the reference digest of a (document, options) pair is computed once per shard process and reused for later cases",
    "hash seeds are sampled, not enumerated; address-dependent behaviour is only probabilistically exposed by permutations/repeats",
    "a worker that times out (60 s + 3 s per conversion) or dies is recorded as rejected, not as a violation",
    "the tree under test is not edited while a case runs: every worker reports a sha256 over picosvg/*.py and a case whose runs saw different sources is rejected",
]
SHARDS = {"quick": 4, "thorough": 16}

HERE = os.path.dirname(os.path.dirname(os.path.dirname(os.path.abspath(__file__))))
_PAR = {"n": int(os.environ.get("VERIF_C16_PAR", "4"))}


def _tests_dir():
    src = os.environ.get("PICOSVG_SRC_DIR")
    if src:
        d = os.path.join(os.path.dirname(os.path.abspath(src)), "tests")
        if os.path.isdir(d):
            return d
    return "/repo/tests"


def corpus_files():
    d = _tests_dir()
    return sorted(f for f in os.listdir(d) if f.endswith(".svg"))


def _sha(s: str) -> str:
    return hashlib.sha256(s.encode("utf-8")).hexdigest()


class WorkerTrouble(Exception):
    pass


def run_worker(docs, seq, hashseed):
    """Convert docs[i] for i in seq, in that order, in one fresh interpreter with the given hash seed."""
    env = dict(os.environ)
    env["PYTHONHASHSEED"] = str(hashseed)
    job = json.dumps({"docs": [{"svg": d["svg"], "opts": d.get("opts") or {}} for d in docs], "seq": list(seq)})
    try:
        p = subprocess.run(
            [sys.executable, "-m", "vlib.c16_worker"],
            input=job.encode("utf-8"),
            stdout=subprocess.PIPE,
            stderr=subprocess.PIPE,
            env=env,
            cwd=HERE,
            timeout=60 + 3 * len(seq),
        )
    except subprocess.TimeoutExpired:
        raise WorkerTrouble("timeout")
    if p.returncode != 0:
        raise WorkerTrouble(f"worker-died:{p.returncode}")
    res = json.loads(p.stdout.decode("utf-8"))
    want = os.environ.get("PICOSVG_SRC_DIR")
    if want and not os.path.realpath(res["picosvg"]).startswith(os.path.realpath(want)):
        raise RuntimeError(f"worker imported picosvg from {res['picosvg']}, expected under {want}")
    if res["hashseed"] != str(hashseed) or len(res["out"]) != len(seq):
        raise RuntimeError("worker did not honour the job")
    return res


_REF = {}


def _ref_key(doc):
    return _sha(doc["svg"] + "\0" + json.dumps(doc.get("opts") or {}, sort_keys=True))


def _reference(doc):
    """Outcome of converting the document alone in a fresh interpreter with PYTHONHASHSEED=0."""
    key = _ref_key(doc)
    if key not in _REF:
        res = run_worker([doc], [0], 0)
        o = res["out"][0]
        _REF[key] = (o, res["texts"].get(o[1]) if o[0] == "ok" else None, res["fingerprint"])
        if len(_REF) > 4000:
            _REF.pop(next(iter(_REF)))
    return _REF[key]


def _norm(o):
    return ("ok", o[1]) if o[0] == "ok" else ("exc", o[1])


_ID_RE = re.compile(r'\bid="([^"]*)"')
_INHERIT_RE = re.compile(
    r"<(?:\w+:)?(?:g|svg)\b[^>]*?\s(?:fill|stroke|opacity|style|fill-opacity|fill-rule|stroke-[a-z]+|clip-rule|display|color)=\"[^\"]*\"[^>]*[^/]>\s*<(?!/)"
)


def features(svg_in: str, ref):
    """Labels of one document (own textual scan of input and reference output)."""
    o, text = ref[0], ref[1]
    f = set()
    if o[0] != "ok":
        return {"raises:" + o[1]}
    if set(_ID_RE.findall(text)) - set(_ID_RE.findall(svg_in)):
        f.add("generated-ids")
    if re.search(r"<(?:\w+:)?use\b", svg_in):
        f.add("use")
    if _INHERIT_RE.search(svg_in):
        f.add("inherited-attrs")
    if "<text" in text:
        f.add("text-passthrough")
    if re.search(r"stroke-line(?:cap|join)\s*[=:]\s*\"?\s*round", svg_in) and re.search(r"\bstroke\s*[=:]", svg_in):
        f.add("round-stroke")
    if "clip-path" in svg_in or "clipPath" in svg_in:
        f.add("clip")
    if len(re.findall(r"<(?:\w+:)?svg\b", svg_in)) > 1:
        f.add("nested-svg")
    if "Gradient" in svg_in and "href" in svg_in and re.search(r"Gradient\b[^>]*href", svg_in):
        f.add("gradient-template")
    if "Gradient" in text:
        f.add("gradient-kept")
    return f


NONTRIVIAL = {"generated-ids", "use", "inherited-attrs", "text-passthrough"}


def _diff(a: str, b: str) -> str:
    if a is None or b is None:
        return ""
    la = a.replace("><", ">\n<").splitlines()
    lb = b.replace("><", ">\n<").splitlines()
    out = []
    for line in difflib.unified_diff(la, lb, "alone", "observed", lineterm="", n=0):
        if line.startswith(("---", "+++", "@@")):
            continue
        out.append(line if len(line) <= 260 else line[:260] + "...")
        if len(out) >= 6:
            break
    return "\n".join(out)


def _load_docs(case):
    docs = []
    for d in case["docs"]:
        if "file" in d:
            path = os.path.join(_tests_dir(), d["file"])
            if not os.path.isfile(path):
                return None, f"corpus-file-missing"
            svg = open(path, encoding="utf-8").read()
            if d.get("sha") and _sha(svg) != d["sha"]:
                return None, "corpus-file-changed"
            docs.append({"name": d["file"], "svg": svg, "opts": d.get("opts") or {}})
        else:
            docs.append({"name": d.get("name", "doc"), "svg": d["svg"], "opts": d.get("opts") or {}})
    return docs, None


def check_case(case) -> Result:
    r = Result()
    docs, why = _load_docs(case)
    if docs is None:
        r.rejected = why
        return r
    n = len(docs)
    procs = case.get("procs") or []
    fresh = case.get("fresh") or []
    jobs = []  # (kind, hashseed, seq)
    for p in procs:
        seq = []
        for k, perm in enumerate(p["perms"]):
            for i in perm:
                seq.append(i)
                if p.get("repeat") and k == 0:
                    seq.append(i)
        jobs.append(("batch", p["seed"], seq))
    for i, s in fresh:
        jobs.append(("fresh", s, [i]))

    try:
        with concurrent.futures.ThreadPoolExecutor(max_workers=max(1, _PAR["n"])) as ex:
            refs = list(ex.map(_reference, docs))
            results = list(ex.map(lambda j: run_worker(docs, j[2], j[1]), jobs))
    except WorkerTrouble as e:
        r.rejected = str(e)
        return r

    if len({ref[2] for ref in refs} | {res["fingerprint"] for res in results}) > 1:
        # somebody edited the tree under test while the case was running: nothing can be concluded
        for d in docs:
            _REF.pop(_ref_key(d), None)
        r.rejected = "picosvg-source-changed-during-run"
        return r
    feats = [features(d["svg"], ref) for d, ref in zip(docs, refs)]
    if all(ref[0][0] != "ok" for ref in refs):
        r.rejected = "all-documents-raise:" + ",".join(sorted({ref[0][1] for ref in refs}))
        return r
    classes = set()
    for f in feats:
        classes.update("doc:" + x for x in f)
    # same shape converted under different tolerances / contexts in one process
    bodies = {}
    for d in docs:
        m = re.search(r"<(?:\w+:)?svg\b[^>]*>(.*)</(?:\w+:)?svg>\s*$", d["svg"], re.S)
        if m:
            bodies.setdefault(m.group(1), set()).add(d["svg"])
    if any(len(v) > 1 for v in bodies.values()):
        classes.add("batch:same-body-other-root")
    for kind, s, seq in jobs:
        classes.add(f"{kind}:seed={s if s in (0, 1, 2, 12345) else 'drawn'}")
    if procs:
        classes.add("batch:perms=%d" % max(len(p["perms"]) for p in procs))
        if any(p.get("repeat") for p in procs):
            classes.add("batch:immediate-repeat")
    for d in docs:
        for k, v in (d["opts"] or {}).items():
            if v not in (False, None):
                classes.add(f"opt:{k}")
    classes.add("docs:corpus" if all("file" in d for d in case["docs"]) else ("docs:mixed" if any("file" in d for d in case["docs"]) else "docs:generated"))
    r.classes = tuple(sorted(classes))
    r.nontrivial = bool(jobs) and any(f & NONTRIVIAL for f in feats)

    def describe(o, texts):
        return f"output sha256 {o[1][:12]}" if o[0] == "ok" else f"raises {o[1]} ({o[2][:80]})"

    seen = set()

    def report(clause, i, cfg, o, texts):
        if (clause, i) in seen:
            return
        seen.add((clause, i))
        ref_o, ref_text = refs[i][0], refs[i][1]
        msg = f"document #{i} {docs[i]['name']} opts={docs[i]['opts']}: {cfg}: {describe(o, texts)}; alone in a fresh interpreter with PYTHONHASHSEED=0: {describe(ref_o, None)}"
        dtext = ""
        if o[0] == "ok" and ref_o[0] == "ok":
            dtext = _diff(ref_text, texts.get(o[1]))
            if dtext:
                msg += "\n" + dtext
        r.bad(clause, msg)
        if r.info is None:
            r.info = {"document": docs[i]["svg"], "opts": docs[i]["opts"], "config": cfg, "expected": ref_o, "observed": o, "diff": dtext}

    for (kind, s, seq), res in zip(jobs, results):
        out, texts = res["out"], res["texts"]
        if kind == "fresh":
            i = seq[0]
            o = out[0]
            if _norm(o) != _norm(refs[i][0]):
                if o[0] != refs[i][0][0] or o[0] == "exc":
                    clause = "exception-type-varies"
                else:
                    clause = "varies-with-hashseed" if s != 0 else "varies-between-processes"
                report(clause, i, f"alone in a fresh interpreter with PYTHONHASHSEED={s}", o, texts)
            continue
        for i in range(n):
            pos = [k for k, j in enumerate(seq) if j == i]
            if not pos:
                continue
            kinds = {}
            for k in pos:
                kinds.setdefault(_norm(out[k]), k)
            refn = _norm(refs[i][0])
            if len(kinds) == 1 and refn in kinds:
                continue
            # first deviating position
            kdev = min(k for nk, k in kinds.items() if nk != refn)
            o = out[kdev]
            cfg = f"conversion #{kdev + 1} of {len(seq)} in one interpreter with PYTHONHASHSEED={s} (order of the first {kdev + 1}: {seq[: kdev + 1] if kdev < 24 else seq[kdev - 23 : kdev + 1]})"
            if any(nk[0] == "exc" for nk in kinds) or refn[0] == "exc":
                clause = "exception-type-varies"
            elif len(kinds) > 1 or s == 0:
                clause = "varies-with-history"
                if len(kinds) > 1:
                    cfg += f"; {len(kinds)} different outputs for this document within the process"
            else:
                # every conversion of this document in the process deviates the same way: tell hash-seed
                # dependence from a lasting effect of an earlier document by converting it alone under seed s
                try:
                    ares = run_worker([docs[i]], [0], s)
                    alone = ares["out"][0] if ares["fingerprint"] == refs[i][2] else None
                except WorkerTrouble:
                    alone = None
                if alone is not None and _norm(alone) == refn:
                    clause = "varies-with-history"
                    cfg += f"; alone in a fresh interpreter with PYTHONHASHSEED={s} it matches"
                else:
                    clause = "varies-with-hashseed"
            report(clause, i, cfg, o, texts)
    return r


# ------------------------------------------------------------------ strategies

SEEDS = st.one_of(st.sampled_from([0, 1, 2, 12345]), st.sampled_from([1, 2, 12345]), st.integers(3, 2**32 - 1))


@st.composite
def _configs(draw, n, max_perms=8, max_procs=2):
    procs = []
    for _ in range(draw(st.integers(1, max_procs))):
        perms = [list(draw(st.permutations(list(range(n))))) for _ in range(draw(st.integers(3, max_perms)))]
        procs.append({"seed": draw(SEEDS), "perms": perms, "repeat": draw(st.integers(0, 2)) == 0})
    fresh = [[draw(st.integers(0, n - 1)), draw(SEEDS)] for _ in range(draw(st.integers(0, 3)))]
    return {"procs": procs, "fresh": fresh}


def _corpus_opts(draw):
    o = {}
    k = draw(st.integers(0, 9))
    if k == 0:
        o["ndigits"] = draw(st.sampled_from([0, 1, 6]))
    elif k == 1:
        o["pretty"] = True
    elif k == 2:
        o["drop_unsupported"] = True
    elif k == 3:
        o["allow_text"] = True
    elif k == 4:
        o["clip"] = True
    return o


def _file_entry(draw, name):
    svg = open(os.path.join(_tests_dir(), name), encoding="utf-8").read()
    return {"file": name, "sha": _sha(svg), "opts": _corpus_opts(draw)}


def corpus_strategy(ctx):
    _PAR["n"] = int(os.environ.get("VERIF_C16_PAR", "4" if ctx.tier == "quick" else "2"))
    files = corpus_files()
    mine = files[ctx.shard :: ctx.nshards] or files

    @st.composite
    def case(draw):
        if ctx.tier == "quick":
            k = draw(st.integers(6, min(10, len(mine))))
            names = list(draw(st.permutations(mine)))[:k]
        else:
            names = list(mine)
        docs = [_file_entry(draw, nm) for nm in sorted(names)]
        cfg = draw(_configs(len(docs), max_perms=5 if ctx.tier == "quick" else 8))
        return {"docs": docs, **cfg}

    return case()


def generated_strategy(ctx):
    _PAR["n"] = int(os.environ.get("VERIF_C16_PAR", "4" if ctx.tier == "quick" else "2"))
    files = corpus_files()

    @st.composite
    def case(draw):
        docs = draw(c16_gen.documents())
        for _ in range(draw(st.sampled_from([0, 0, 1, 2]))):
            docs.insert(draw(st.integers(0, len(docs))), _file_entry(draw, draw(st.sampled_from(files))))
        cfg = draw(_configs(len(docs)))
        return {"docs": docs, **cfg}

    return case()


def _describe(case):
    return {
        "docs": [d.get("file") or {"name": d.get("name"), "svg": d["svg"][:400], "opts": d.get("opts")} for d in case["docs"]][:4],
        "ndocs": len(case["docs"]),
        "procs": [{"seed": p["seed"], "nperms": len(p["perms"]), "repeat": p.get("repeat")} for p in case.get("procs", [])],
        "fresh": case.get("fresh"),
    }


SUBCHECKS = {
    "corpus": Sub("corpus", check_case, strategy=corpus_strategy, examples={"quick": 3, "thorough": 6}, describe=_describe, shrink_s=45.0),
    "generated": Sub("generated", check_case, strategy=generated_strategy, examples={"quick": 12, "thorough": 70}, describe=_describe, shrink_s=45.0),
}
