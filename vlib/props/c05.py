"""C05 - every output path carries the paint and opacity the SVG cascade assigns."""
from __future__ import annotations

import functools

from vlib.run import Result, Sub
from vlib.gen import docs
from vlib.props import rendercmp

ID = "C05"
RULE = (
    "Hypothesis draws documents from the structural grammar (shapes, groups to depth 4, use, transforms) with "
    "overlapping geometry in which shapes, groups, the root and use elements each set a random subset of fill (palette "
    "colours, none, explicit default black), fill-opacity, opacity (incl. 0 and 1), fill-rule and display via attribute, "
    "style, or both with different values (style must win). Oracle: differential render with vlib.refsvg.render "
    "(cascade: style > attribute > inherited; proper group opacity; source-over) comparing the composited RGBA "
    "(tolerance 1.5/255) and the ordered paint stack at every mutually trusted point (epsilon band 0.4%). "
    "Non-trivial = >=20 trusted points, >=5 covered, and the source sets a cascade property on a group/use/root or has "
    "a style-vs-attribute conflict; distinct = distinct source text."
)
ASSUMPTIONS = [
    "vlib.refsvg.render cascade/compositing (self-tested); 'inherit' and currentColor are not generated",
    "shapes that have both a visible fill and a visible stroke together with own opacity < 1 are outside the property's scope (not generated here: no strokes in this campaign)",
]

CFG = docs.Cfg(transforms=True, groups=True, use=True, nested=False, display=False, cascade=True, opacity=True, max_leaves=6)


def check_doc(case) -> Result:
    r = Result()
    src = case["svg"]
    try:
        out = rendercmp.convert(src)
    except Exception as e:
        r.rejected = f"convert:{type(e).__name__}"
        return r
    feat = case.get("feat", [])
    r.classes = tuple(feat)
    stats = rendercmp.compare(src, out, r, what=("stack", "rgba"), strokes=False, gradients=False, attribute=not case.get("pinned"))
    if stats and not r.rejected:
        interesting = any(f in feat for f in ("group-opacity", "use-opacity", "use-borne-paint", "style-vs-attr", "explicit-default-fill")) or any(f.startswith("root-") for f in feat)
        r.nontrivial = bool(interesting and stats["trusted"] >= 20 and stats["covered"] >= 5)
    return r


def _strategy(ctx):
    return docs.document(CFG, hook=docs.cascade_hook, root_hook=functools.partial(docs.root_cascade_hook, allow_opacity=True))


SUBCHECKS = {
    "doc": Sub("doc", check_doc, strategy=_strategy, examples={"quick": 600, "thorough": 6000}, describe=lambda c: c["svg"]),
}
