"""C05 - every output path carries the paint and opacity the SVG cascade assigns."""
from __future__ import annotations

import functools

from vlib.run import Result, Sub
from vlib.gen import docs
from vlib.props import rendercmp

ID = "C05"
RULE = (
    "Hypothesis draws documents from the structural grammar (shapes, groups to depth 4, use, transforms) with "
    "overlapping geometry in which shapes, groups, the root and use elements each set a random subset of fill (palette "
    "colours, none, explicit default black), fill-opacity, opacity (incl. 0 and 1), fill-rule and display via attribute, "
    "style, or both with different values (style must win). Oracle: differential render with vlib.refsvg.render "
    "(cascade: style > attribute > inherited; proper group opacity; source-over) comparing the composited RGBA "
    "(tolerance 1.5/255) and the ordered paint stack at every mutually trusted point (epsilon band 0.4%). "
    "Non-trivial = >=20 trusted points, >=5 covered, and the source sets a cascade property on a group/use/root or has "
    "a style-vs-attribute conflict; distinct = distinct source text. Sub-check stroke: the same with strokes (own or inherited from groups, via attribute or style) on shapes whose fill is none, i.e. the property's scope where only one of fill and stroke is visible, so that element, group and root opacity above stroked content is exercised; documents in which the reference cascade finds a shape with both paints visible are rejected as out of scope."
)
ASSUMPTIONS = [
    "vlib.refsvg.render cascade/compositing (self-tested); 'inherit' and currentColor are not generated",
    "shapes that have both a visible fill and a visible stroke are outside the scope of the stroke sub-check (picosvg documents that their opacity cannot be preserved exactly); sub-check doc has no strokes at all",
]

CFG = docs.Cfg(transforms=True, groups=True, use=True, nested=False, display=False, cascade=True, opacity=True, max_leaves=6)


def check_doc(case) -> Result:
    r = Result()
    src = case["svg"]
    try:
        out = rendercmp.convert(src)
    except Exception as e:
        r.rejected = f"convert:{type(e).__name__}"
        return r
    feat = case.get("feat", [])
    r.classes = tuple(feat)
    stats = rendercmp.compare(src, out, r, what=("stack", "rgba"), strokes=False, gradients=False, attribute=not case.get("pinned"))
    if stats and not r.rejected:
        interesting = any(f in feat for f in ("group-opacity", "use-opacity", "use-borne-paint", "style-vs-attr", "explicit-default-fill")) or any(f.startswith("root-") for f in feat)
        r.nontrivial = bool(interesting and stats["trusted"] >= 20 and stats["covered"] >= 5)
    return r


def _strategy(ctx):
    return docs.document(CFG, hook=docs.cascade_hook, root_hook=functools.partial(docs.root_cascade_hook, allow_opacity=True))


def _stroke_only_hook(draw, cx, n):
    """Cascade properties plus strokes in the property's scope: a stroked shape has fill none (only one
    of fill and stroke visible), so element/group/use opacity anywhere above it is well defined."""
    from hypothesis import strategies as st

    docs.cascade_hook(draw, cx, n)
    if n["tag"] in ("g", "use"):
        if draw(st.integers(0, 3)) == 0:
            for k, v in docs._stroke_props(draw, cx, allow_dash=False).items():
                (n["a"] if draw(st.booleans()) else n["s"])[k] = v
            # content below must not show a fill together with this inherited stroke
            n["a"].pop("fill", None)
            n["s"].pop("fill", None)
            n["s"]["fill"] = "none"
            cx.feat.add("stroke-inherited")
            cx.stroke_scope = True
        return
    if draw(st.integers(0, 2)) == 0:
        for k, v in docs._stroke_props(draw, cx, allow_dash=False).items():
            (n["a"] if draw(st.booleans()) else n["s"])[k] = v
        n["a"].pop("fill", None)
        n["s"].pop("fill", None)
        n["a"]["fill"] = "none"
        cx.feat.add("stroke-own")


CFG_STROKE = docs.Cfg(transforms=True, groups=True, use=False, nested=False, display=False, cascade=True, opacity=True, stroke=True, max_leaves=5)


def check_doc_stroke(case) -> Result:
    r = Result()
    src = case["svg"]
    # scope guard (own reading of the source with the reference cascade): no rendered shape may show both a
    # fill and a stroke - that combination with opacity is outside the property's scope
    try:
        from vlib.refsvg import render

        sc = render.build(src)
        if any(l.fill_paint is not None and l.stroke_paint is not None and l.fill_alpha > 0 and l.stroke_alpha > 0 for l in sc.leaves):
            r.rejected = "scope:fill-and-stroke-both-visible"
            return r
    except render.Unsupported as e:
        r.rejected = f"oracle-unsupported-src:{str(e)[:40]}"
        return r
    try:
        out = rendercmp.convert(src)
    except Exception as e:
        r.rejected = f"convert:{type(e).__name__}"
        return r
    feat = case.get("feat", [])
    r.classes = tuple(feat)
    stats = rendercmp.compare(src, out, r, what=("stack", "rgba"), strokes=True, gradients=False, attribute=not case.get("pinned"))
    if stats and not r.rejected:
        r.nontrivial = bool(("stroke-own" in feat or "stroke-inherited" in feat) and any(f.endswith("-opacity") for f in feat) and stats["trusted"] >= 20 and stats["covered"] >= 5)
    return r


SUBCHECKS = {
    "doc": Sub("doc", check_doc, strategy=_strategy, examples={"quick": 500, "thorough": 5000}, describe=lambda c: c["svg"]),
    "stroke": Sub("stroke", check_doc_stroke, strategy=lambda ctx: docs.document(CFG_STROKE, hook=_stroke_only_hook, root_hook=functools.partial(docs.root_cascade_hook, allow_opacity=True)), examples={"quick": 200, "thorough": 2500}, describe=lambda c: c["svg"]),
}
