"""C01 - conversion output always conforms to the documented picosvg grammar."""
from __future__ import annotations

import copy
import os
import subprocess
import sys
import tempfile

from hypothesis import strategies as st

from vlib.run import Result, Sub
from vlib.gen import docs, noise
from vlib.props.pico_grammar import validate

from picosvg.svg import SVG

ID = "C01"
RULE = (
    "Hypothesis draws documents from the union of the document families (structural: shapes/paths/groups/transforms/"
    "use/nested svg/display; clip paths; strokes incl. lines; cascade with opacities via attribute/style; linear/radial gradients with href templates, percentages, both gradientUnits, shared by several shapes; ignorable "
    "noise; unreferenced unsupported elements filter/mask/image/text/style/symbol/pattern/marker/foreignObject/a/switch/"
    "unknown at leaf and container positions) x ndigits 0..6 x allow_text x drop_unsupported. Oracle: an independent "
    "validator (stdlib XML parser, own path-data parser, Decimal rounding test) applied to the serialised output of "
    "every conversion that returns normally: root/defs structure, defs content, g (>=2 children, only an opacity strictly "
    "between 0 and 1), path (no stroke/transform/clip-path/evenodd, only absolute M L C Q A Z, every number rounded to "
    "ndigits), no use/clipPath/nested svg/basic shape/comment/PI/foreign node/xlink/inheritable root attribute. "
    "Metamorphic clause: if D converts with drop_unsupported, D plus unreferenced unsupported subtrees must convert with "
    "drop_unsupported too. CLI sub-check: `python -m picosvg.picosvg` (file and stdin input, --output_file, flags) must "
    "print exactly the library result and obey the grammar. Non-trivial = normal return with >= 1 path in the output and "
    "(>= 2 feature families in the source or a non-default option); distinct = distinct (source, options)."
)
ASSUMPTIONS = [
    "validator vlib/props/pico_grammar.py encodes the README grammar as restated by the property (self-tested)",
    "a conversion that raises is a rejection, except under the drop_unsupported metamorphic clause",
]

from vlib.gen import families

CFGS = dict(families.CFGS)
HOOKS = dict(families.HOOKS)


@st.composite
def c01_case(draw):
    fam = draw(st.sampled_from(sorted(CFGS)))
    root, feat = draw(docs.document_ast(CFGS[fam], hook=HOOKS[fam], root_hook=docs.root_cascade_hook if fam in ("cascade", "mixed", "gradient") else None))
    feat = list(feat) + ["family:" + fam]
    base = docs.serialize(root, root=True)
    case = {"ndigits": draw(st.sampled_from([3, 3, 0, 1, 2, 4, 5, 6])), "allow_text": draw(st.sampled_from([False, False, True])), "drop_unsupported": draw(st.sampled_from([False, True]))}
    extra_ns, prolog = "", ""
    if draw(st.integers(0, 2)) == 0:
        labels, prolog, foreign = noise.insert_noise(draw, root, 1, 4)
        feat += ["noise"]
        if foreign:
            extra_ns = noise.FOREIGN_NS
    if draw(st.booleans()):
        labels = noise.insert_unsupported(draw, root)
        feat += sorted({l.split("@")[0] for l in labels}) + ["unsupported"]
        case["base"] = base
    case["svg"] = docs.serialize(root, root=True, extra_ns=extra_ns, prolog=prolog)
    case["feat"] = feat
    return case


def _convert(svg, case):
    return SVG.fromstring(svg).topicosvg(ndigits=case["ndigits"], allow_text=case["allow_text"], drop_unsupported=case["drop_unsupported"]).tostring()


def check_doc(case) -> Result:
    r = Result()
    feat = case.get("feat", [])
    r.classes = tuple(f for f in feat if ":" in f or f in ("noise", "unsupported")) + (f"ndigits={case['ndigits']}", f"allow_text={case['allow_text']}", f"drop_unsupported={case['drop_unsupported']}")
    try:
        out = _convert(case["svg"], case)
    except Exception as e:
        # the drop_unsupported promise: unsupported elements alone must not make the call fail
        if case.get("drop_unsupported") and case.get("base"):
            try:
                _convert(case["base"], case)
            except Exception:
                r.rejected = f"convert:{type(e).__name__}"
                return r
            r.bad("drop-unsupported-fails", f"the document converts, but with unreferenced unsupported elements added topicosvg(drop_unsupported=True) raises {type(e).__name__}: {str(e)[:200]}")
            return r
        r.rejected = f"convert:{type(e).__name__}"
        return r
    for clause, msg in validate(out, case["ndigits"], case["allow_text"]):
        r.bad(clause, f"{msg}; options ndigits={case['ndigits']} allow_text={case['allow_text']} drop_unsupported={case['drop_unsupported']}; out={out[:300]}")
    fams = len([f for f in feat if f in ("transform", "use", "nested-svg", "stroke-own", "stroke-inherited", "group-opacity", "noise", "unsupported", "display-none") or f.startswith("clip-on-")])
    nondefault = case["ndigits"] != 3 or case["allow_text"] or case["drop_unsupported"]
    r.nontrivial = "<path" in out and (fams >= 2 or nondefault)
    return r


# ------------------------------------------------------------------ CLI


def check_cli(case) -> Result:
    r = Result()
    src = case["svg"]
    flags = []
    if case.get("allow_text"):
        flags.append("--allow_text")
    if case.get("drop_unsupported"):
        flags.append("--drop_unsupported")
    mode = case.get("mode", "file")
    r.classes = (f"cli:{mode}",) + tuple(flags)
    try:
        lib = SVG.fromstring(src).topicosvg(allow_text=bool(case.get("allow_text")), drop_unsupported=bool(case.get("drop_unsupported"))).tostring(pretty_print=True)
        lib_err = None
    except Exception as e:
        lib, lib_err = None, type(e).__name__
    with tempfile.TemporaryDirectory() as td:
        inp = os.path.join(td, "in.svg")
        outp = os.path.join(td, "out.svg")
        open(inp, "w").write(src)
        cmd = [sys.executable, "-m", "picosvg.picosvg"] + flags
        if mode == "outfile":
            cmd += ["--output_file", outp]
        stdin = None
        if mode == "stdin":
            stdin = src
        else:
            cmd.append(inp)
        try:
            p = subprocess.run(cmd, input=stdin, capture_output=True, text=True, timeout=300)
        except subprocess.TimeoutExpired:
            r.rejected = "cli-timeout(machine load)"  # a time budget hit is inconclusive, never a violation
            return r
        if mode == "outfile" and p.returncode == 0:
            got = open(outp).read()
        else:
            got = p.stdout
    if lib is None:
        if p.returncode == 0:
            r.bad("cli-differs", f"library raises {lib_err} but the CLI exits 0")
        else:
            r.rejected = f"convert:{lib_err}"
        return r
    if p.returncode != 0:
        r.bad("cli-differs", f"library converts but the CLI exits {p.returncode}: {p.stderr[-300:]}")
        return r
    if got.rstrip("\n") != lib.rstrip("\n"):
        r.bad("cli-differs", f"CLI output differs from the library result ({mode}): {got[:200]!r} vs {lib[:200]!r}")
    for clause, msg in validate(got, 3, bool(case.get("allow_text"))):
        r.bad(clause, f"CLI: {msg}")
    r.nontrivial = "<path" in got
    return r


@st.composite
def cli_case(draw):
    c = draw(c01_case())
    c["mode"] = draw(st.sampled_from(["file", "stdin", "stdin", "outfile"]))
    c["ndigits"] = 3
    if "noise" not in c["feat"] and "<svg" in c["svg"]:
        # every command-line case carries a comment and a processing instruction inside the root: each input route
        # (file argument, stdin) has to strip them
        i = c["svg"].index(">", c["svg"].index("<svg")) + 1
        c["svg"] = c["svg"][:i] + "<!-- made by hand --><?editor v='1'?>" + c["svg"][i:]
        c["feat"] = c["feat"] + ["noise"]
    return c


SUBCHECKS = {
    "doc": Sub("doc", check_doc, strategy=lambda ctx: c01_case(), examples={"quick": 700, "thorough": 6000}, describe=lambda c: {k: c[k] for k in ("svg", "ndigits", "allow_text", "drop_unsupported")}),
    "cli": Sub("cli", check_cli, strategy=lambda ctx: cli_case(), examples={"quick": 12, "thorough": 60}, describe=lambda c: {k: c[k] for k in ("svg", "mode", "allow_text", "drop_unsupported")}, shrink_s=30),
}
