"""C07 - conversion is idempotent: picosvg in, identical picosvg out."""
from __future__ import annotations

import zlib

from hypothesis import strategies as st

from vlib.run import Result, Sub, open_finding_ids
from vlib.gen import families, docs, noise

from picosvg.svg import SVG

ID = "C07"
RULE = (
    "Hypothesis draws documents from the union of the document families (structural, clip, stroke, cascade biased "
    "towards invisible content - opacity 0, display none, fill none -, gradients shared between shapes and declared "
    "before/after their templates and used as stroke paint, opacities whose product rounds to 0, subpaths that return to within a rounding-grid unit of their start, twins, mixed) x ndigits 0..6 (the same value in every pass) x drop_unsupported (1 in 5, with 1-3 unsupported elements inserted at leaf and container positions). Oracle (metamorphic): "
    "o1 = convert(src), o2 = convert(o1), o3 = convert(o2) must be byte-identical, and SVG.fromstring(o1).checkpicosvg() "
    "must report no violation. A first pass that raises is a rejection; a later pass that raises is a violation. "
    "Non-trivial = o1 contains a path and the source used a transform, clip, stroke, gradient, opacity group or an "
    "invisible leaf; distinct = distinct (source, ndigits)."
)
ASSUMPTIONS = ["pure byte equality, no tolerance", "open finding F30: passes that differ only in the order of gradients inside defs are counted as excluded (pinned replay findings/C07-F30-defs-order.json)"]


def _defs_sorted(out: str) -> str:
    """The document with the children of defs sorted by id (everything else untouched)."""
    import re

    m = re.search(r"<defs>(.*?)</defs>", out, re.S)
    if not m:
        return out
    kids = [mm.group(0) for mm in re.finditer(r"<(linear|radial)Gradient\b[^>]*?(?:/>|>.*?</\1Gradient>)", m.group(1), re.S)]
    if "".join(kids) != m.group(1):
        return out
    key = lambda k: re.search(r'id="([^"]*)"', k).group(1) if re.search(r'id="([^"]*)"', k) else ""
    return out[: m.start(1)] + "".join(sorted(kids, key=key)) + out[m.end(1) :]


def _conv(s, nd, drop=False):
    return SVG.fromstring(s).topicosvg(ndigits=nd, drop_unsupported=drop).tostring()


def check_doc(case) -> Result:
    r = Result()
    nd = case.get("ndigits", 3)
    feat = case.get("feat", [])
    r.classes = tuple(f for f in feat if f.startswith("family:") or f.startswith("twin:") or f in ("rounding-boundary-subpath", "gradient-stroke", "unsupported-in-opacity-group", "late-dissolving-group")) + (f"ndigits={nd}",)
    drop = bool(case.get("drop_unsupported"))
    if drop:
        r.classes += ("drop_unsupported",)
    try:
        o1 = _conv(case["svg"], nd, drop)
    except Exception as e:
        r.rejected = f"convert:{type(e).__name__}"
        return r
    try:
        v = SVG.fromstring(o1).checkpicosvg()
        if v:
            r.bad("checkpicosvg", f"converted document fails the library's own check: {v}; o1={o1[:300]}")
        o2 = _conv(o1, nd, drop)
        o3 = _conv(o2, nd, drop)
    except Exception as e:
        r.bad("second-pass-raises", f"converting an already converted document raised {type(e).__name__}: {str(e)[:200]}; o1={o1[:400]}")
        return r
    if o1 != o2 and not case.get("pinned") and "F30" in open_finding_ids("C07") and _defs_sorted(o1) == _defs_sorted(o2):
        # neutraliser for open finding F30: the passes differ ONLY in the order of the gradients inside defs
        r.excluded = "F30"
        r.nontrivial = True
        return r
    if o1 != o2:
        i = next((k for k, (a, b) in enumerate(zip(o1, o2)) if a != b), min(len(o1), len(o2)))
        r.bad("pass2-differs", f"pass 2 differs from pass 1 at byte {i} (ndigits={nd}): ...{o1[max(0, i - 60) : i + 60]!r} vs ...{o2[max(0, i - 60) : i + 60]!r}")
        r.info = {"o1": o1, "o2": o2}
    elif o2 != o3:
        r.bad("pass3-differs", f"pass 3 differs from pass 2 (ndigits={nd})")
    interesting = any(f in feat for f in ("transform", "use", "gradient-fill", "group-opacity", "invisible-leaf", "stroke-own", "stroke-inherited", "nested-svg")) or any(f.startswith("clip-on-") for f in feat)
    r.nontrivial = "<path" in o1 and interesting
    return r


def _paths(n, acc, in_defs=False):
    for c in n["c"]:
        if c["tag"] == "path" and not in_defs and "d" in c["a"]:
            acc.append(c)
        if not c["tag"].startswith("#"):
            _paths(c, acc, in_defs or c["tag"] == "clipPath")
    return acc


@st.composite
def c07_case(draw):
    root, feat = draw(families.any_document_ast())
    nd = draw(st.sampled_from([3, 3, 3, 0, 1, 2, 4, 5, 6]))
    if draw(st.integers(0, 3)) == 0:
        # rounding-boundary subpath: a small closed square on whole-number coordinates whose last vertex misses the
        # start by about one unit of the rounding grid (just below / at / just above it), so that "is this subpath
        # closed already?" style decisions see a different picture before and after rounding
        ps = _paths(root, [])
        if ps:
            filled = [p for p in ps if "url(" in (p["s"].get("fill") or p["a"].get("fill") or "")]
            p = draw(st.sampled_from(filled if filled and draw(st.booleans()) else ps))
            x, y, w = draw(st.integers(-5, 60)), draw(st.integers(-5, 60)), draw(st.integers(2, 9))
            g = 10.0 ** -nd
            dlt = draw(st.sampled_from([0.4, 0.6, 1.0, 1.1, 1.2, 1.4, 1.5, -1.1, -1.3, -1.4])) * g
            q = (x + dlt, y) if draw(st.booleans()) else (x, y + dlt)
            p["a"]["d"] += f" M{x},{y} h{w} v{w} L{q[0]:.{nd + 2}f},{q[1]:.{nd + 2}f}" + draw(st.sampled_from([" z", " Z", ""]))
            feat = feat + ["rounding-boundary-subpath"]
    if draw(st.integers(0, 5)) == 0:
        # a translucent group that stays (two visible children) in front, and later a translucent group that only becomes
        # removable once an invisible child has been pruned; opacities with more decimals than ndigits, so that every
        # product has to be rounded again after it was formed
        ops = ["0.654321", "0.37255", "0.5", "0.123456", "0.8"]
        kept = docs.node("g", {"opacity": draw(st.sampled_from(ops))}, c=[docs.node("rect", {"x": "1", "y": "1", "width": "9", "height": "7", "fill": "red"}), docs.node("rect", {"x": "6", "y": "4", "width": "9", "height": "7", "fill": "blue"})])
        inv = docs.node("rect", {"x": "3", "y": "3", "width": "4", "height": "4"})
        inv["a"].update(draw(st.sampled_from([{"fill": "none"}, {"display": "none"}, {"opacity": "0"}])))
        late = docs.node("g", {"opacity": draw(st.sampled_from(ops))}, c=[docs.node("circle", {"cx": "20", "cy": "12", "r": "6", "fill": "green", "opacity": draw(st.sampled_from(ops))}), inv])
        if draw(st.booleans()):
            late["c"].reverse()
        body_at = 1 if root["c"] and root["c"][0]["tag"] == "defs" else 0
        root["c"].insert(body_at, kept)
        if draw(st.booleans()):
            kept["c"].append(late)  # the late group nested in the kept one
        else:
            root["c"].append(late)
        feat = feat + ["late-dissolving-group"]
    case = {"feat": feat, "ndigits": nd}
    if draw(st.integers(0, 4)) == 0:
        # the same fixed point has to be reached on the option path that drops unsupported elements
        labels = noise.insert_unsupported(draw, root, 1, 3)
        groups = []

        def walk(n, in_defs=False):
            for c in n["c"]:
                if c["tag"] == "g" and not in_defs and ("opacity" in c["a"] or "opacity" in c["s"]) and c["c"]:
                    groups.append(c)
                if not c["tag"].startswith("#"):
                    walk(c, in_defs or c["tag"] in ("defs", "clipPath"))

        walk(root)
        leaves = []

        def walk2(n, in_defs=False):
            for i, c in enumerate(n["c"]):
                if c["tag"] in docs._SHAPE_TAGS and not in_defs and "id" not in c["a"]:
                    leaves.append((n, i))
                if not c["tag"].startswith("#"):
                    walk2(c, in_defs or c["tag"] in ("defs", "clipPath"))

        walk2(root)
        if leaves and draw(st.booleans()):
            # a translucent group of ONE shape (itself translucent) and one unsupported element: kept at first, dissolved
            # once the unsupported element is gone, the opacities multiplied and rounded
            parent, i = leaves[draw(st.integers(0, len(leaves) - 1))]
            leaf = parent["c"][i]
            leaf["s"].pop("opacity", None)
            leaf["a"]["opacity"] = draw(st.sampled_from(["0.5", "0.25", "0.75", "0.35"]))
            g = docs.node("g", {"opacity": draw(st.sampled_from(["0.5", "0.25", "0.75", "0.35"]))}, c=[leaf])
            g["c"].insert(draw(st.integers(0, 1)), noise._unsupported_node(draw, draw(st.sampled_from(["text", "image", "switch", "unknown"])), 8))
            parent["c"][i] = g
            case["feat"] = case["feat"] + ["unsupported-in-opacity-group"]
        elif groups:
            # ... in particular inside a translucent group, whose keep-or-dissolve decision changes once they are gone
            g = draw(st.sampled_from(groups))
            g["c"].insert(draw(st.integers(0, len(g["c"]))), noise._unsupported_node(draw, draw(st.sampled_from(["text", "image", "switch", "unknown"])), 9))
            case["feat"] = case["feat"] + ["unsupported-in-opacity-group"]
        case["drop_unsupported"] = True
        case["feat"] = case["feat"] + ["unsupported"]
    h = zlib.crc32(docs.serialize(root, root=True).encode())
    if h % 5 == 0:
        # a radial gradient whose off-centre focal point is moved exactly onto coordinate 0 when its pure translation is
        # folded into the coordinates (pass 1 writes fx="0" or fy="0"; pass 2 has to read that as a focal point, not
        # as "none given").  Chosen by a checksum of the document: no random draw is spent.
        cxv, cyv = [(50, 50), (30.5, 40), (64, 20.25)][(h >> 3) % 3]
        d = [8, 12.5, 5][(h >> 5) % 3]
        on_y = (h >> 7) % 2 == 1
        ga = {"id": "c07fp", "gradientUnits": "userSpaceOnUse", "cx": docs.fmt(cxv), "cy": docs.fmt(cyv), "r": "40"}
        if on_y:
            ga["fy"] = docs.fmt(cyv - d)
            ga["gradientTransform"] = f"translate(7 {docs.fmt(-(cyv - d))})"
        else:
            ga["fx"] = docs.fmt(cxv - d)
            ga["gradientTransform"] = f"translate({docs.fmt(-(cxv - d))} 8)"
        grad = docs.node("radialGradient", ga, c=[docs.node("stop", {"offset": "0", "stop-color": "red"}), docs.node("stop", {"offset": "1", "stop-color": "blue"})])
        root["c"].append(docs.node("defs", c=[grad]))
        root["c"].append(docs.node("rect", {"x": "2", "y": "3", "width": "20", "height": "15", "fill": "url(#c07fp)"}))
        case["feat"] = case["feat"] + ["focal-point-translated-onto-0"]
    case["svg"] = docs.serialize(root, root=True)
    return case


SUBCHECKS = {
    "doc": Sub("doc", check_doc, strategy=lambda ctx: c07_case(), examples={"quick": 600, "thorough": 6000}, describe=lambda c: {"svg": c["svg"], "ndigits": c["ndigits"], "drop_unsupported": bool(c.get("drop_unsupported"))}),
}
