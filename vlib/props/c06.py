"""C06 - rewritten gradients assign the same colour to every point of their shapes."""
from __future__ import annotations

import re
import xml.etree.ElementTree as ET

import numpy as np

from hypothesis import strategies as st

from vlib.run import Result, Sub
from vlib.gen import docs
from vlib.refsvg import render, gradient as G
from vlib.props import rendercmp
from vlib import c06_gen

ID = "C06"
RULE = (
    "Hypothesis draws documents (vlib/c06_gen.py) with a pool of 1-5 linear/radial gradients: x1..y2 / cx,cy,r,fx,fy,fr "
    "each present or defaulted, as numbers or percentages, gradientUnits absent/objectBoundingBox/userSpaceOnUse, "
    "gradientTransform lists (general or translate-only), spreadMethod pad/reflect/repeat, 2-4 stops (offset number or %, "
    "unordered / out-of-range / coincident offsets, colour and opacity via attribute, style or both), xlink:href chains up "
    "to length 3 contributing attributes and/or stops with decoy attributes further down, templates shared by several "
    "users, the gradient elements written in a random permutation (templates before and after their users) in a defs at "
    "the front, at the end, split, or directly under the root; the body consists of basic shapes, paths, groups to depth 3 "
    "and use elements under transform chains (general, translate-only, none) whose fill refers to a gradient through "
    "attribute or style on the shape or inherited from a group/use; a fraction of documents adds clip paths or strokes "
    "(then every gradient is userSpaceOnUse: the property's scope fence). Oracle: vlib.refsvg.gradient (own SVG 1.1 "
    "paint-server evaluator: colour at root point p is G(M^-1 p), M = CTM . bbox-matrix . gradientTransform, template "
    "resolution, closed-form focal radial ramp) inside the reference renderer; source and converted document are "
    "composited at Halton points over the viewBox, 48 Halton points inside each gradient-filled shape's bounds and "
    "edge-offset points; at every mutually trusted point not within 2e-3 (in gradient parameter t) of a colour "
    "discontinuity (repeat seam, coincident stops) the composited RGBA must agree within 2.5/255. Validity clause: every "
    "gradient element of the output has no href, only plain numbers in its geometry attributes, a parsable "
    "gradientTransform, no style attribute and its own stops. Non-trivial = some gradient-filled shape of the source has "
    ">= 8 compared interior points over which its gradient colour varies by > 16/255 and (CTM != identity or "
    "objectBoundingBox units or an href chain); distinct = distinct source text. Sub-check 'api': the unit step "
    "'bounding-box units -> user space' through the public method gradient.as_user_space_units(bbox, inplace) on "
    "gradients parsed with from_element (drawn attributes, bbox, viewBox; copying and in-place form; optionally after "
    "an earlier call for another shape): the result's gradientTransform must equal 'bounding-box matrix after "
    "gradientTransform' (own matrix arithmetic, 1e-9 relative) so that every gradient-space point keeps its place, all "
    "other fields are unchanged, and the copying form leaves the receiver untouched; non-trivial = objectBoundingBox units."
)
ASSUMPTIONS = [
    "vlib.refsvg.gradient implements SVG 1.1 paint servers (self-tested on hand-computed cases by ./check --setup); userSpaceOnUse percentages refer to the root viewBox (no nested svg is generated)",
    "scope fence of the property: objectBoundingBox gradients on shapes that are clipped or stroked are not generated and rejected by the check (fence:bbox-units+clip-or-stroke)",
    "radial gradients whose focal circle is not strictly inside the end circle are out of domain (renderers disagree; picosvg does nothing special)",
    "gradients whose parameter advances by 1 over less than 2 % of the viewBox extent in root space (very short vectors, thin bounding boxes, strong shrinking transforms) are rejected: the 6-decimal rounding of the rewritten parameters is then no longer negligible against the 2.5/255 tolerance",
    "kind-specific attributes are not passed through a template of the other kind (SVG 1.1 literal reading); the generator never produces that constellation",
    "a mismatch that vanishes on the polygonal twin of the source is attributed to skia-pathops (ENGINE) as in the other render-based checks",
    "open finding C06-BBOX-EMPTYSUB (id to be assigned by the integrator): a path painted with an objectBoundingBox gradient under an identity CTM keeps bbox units, but remove_empty_subpaths drops subpaths without area that enlarge the bounding box; a colour mismatch on a document with such a shape (own collinearity test) is counted as excluded C06-BBOX-EMPTYSUB unless the case is pinned",
    "open finding F10 (a template that picosvg normalises before its user hands the user already-folded / already-resolved values): a mismatch on a document that has such a link and that vanishes when the same gradients are declared templates-first in a leading defs is counted as excluded F10 unless the case is pinned",
]

SHARDS = {"quick": 4, "thorough": 16}

RGBA_TOL = 2.5 / 255
T_SEAM = 2e-3
MIN_ROOT_LEN_PCT = 2.0  # fence: t must not advance by 1 over less than this % of the viewBox extent
_NUM = re.compile(r"^[-+]?(?:\d+\.?\d*|\.\d+)(?:[eE][-+]?\d+)?$")
SVGNS = render.SVG


# ------------------------------------------------------------------ validity of output gradients


def _check_output_gradients(out: str, r: Result):
    try:
        root = ET.fromstring(out.encode("utf-8"))
    except ET.ParseError as e:
        r.bad("output-unreadable", f"converted document is not well-formed: {e}")
        return
    for el in root.iter():
        k = G.kind_of(el)
        if k is None:
            continue
        gid = el.get("id")
        problems = []
        for a in el.attrib:
            if a.endswith("}href") or a == "href":
                problems.append(f"has {a.split('}')[-1]}={el.get(a)!r}")
        if el.get("style") is not None:
            problems.append("has a style attribute")
        for a in G.OWN[k][:-3]:
            v = el.get(a)
            if v is not None and not _NUM.match(v.strip()):
                problems.append(f"{a}={v!r} is not a plain number")
        gt = el.get("gradientTransform")
        if gt is not None:
            try:
                render.parse_transform(gt)
            except Exception:
                problems.append(f"gradientTransform={gt!r} unparsable")
        if not [c for c in el if c.tag == SVGNS + "stop"]:
            problems.append("has no stop children of its own")
        if problems:
            r.bad("gradient-not-self-contained", f"output gradient {gid!r}: " + "; ".join(problems) + f"; out={out[:400]}")
            return


# ------------------------------------------------------------------ scene helpers


def _gradient_leaves(scene):
    """[(leaf, evaluator, under_clip)] for leaves whose FILL is a gradient; also flags gradient strokes."""
    out = []

    def walk(n, clipped):
        c = clipped or n.clip is not None
        if isinstance(n, render.Group):
            for k in n.children:
                walk(k, c)
            return
        if n.fill_paint is not None and n.fill_paint.kind == "gradient" and n.fill is not None:
            out.append((n, n.fill_paint.gradient, c))

    walk(scene.root, False)
    return out


def _halton_in(bounds, n, skip=0):
    x0, y0, x1, y1 = bounds
    pts = []
    for i in range(1 + skip, n + 1 + skip):
        pts.append((x0 + (x1 - x0) * render._halton(i, 2), y0 + (y1 - y0) * render._halton(i, 3)))
    return pts


def _ctm_class(m):
    a, b, c, d, e, f = m
    lin_ident = abs(a - 1) < 1e-12 and abs(d - 1) < 1e-12 and abs(b) < 1e-12 and abs(c) < 1e-12
    if lin_ident:
        return "identity" if abs(e) < 1e-12 and abs(f) < 1e-12 else "translate"
    return "general"


def _compare(src, out, r, label=""):
    """-> stats or None; adds colour violations to r."""
    try:
        s1 = render.build(src, strokes=True, gradients=True)
    except render.Unsupported as e:
        msg = str(e)
        if "empty bounding box" in msg:
            r.rejected = "fence:empty-bbox"
        elif "focal circle" in msg:
            r.rejected = "fence:focal-outside"
        else:
            r.rejected = f"oracle-unsupported-src:{msg[:40]}"
        return None
    gl1 = _gradient_leaves(s1)
    ext = max(s1.viewbox[2], s1.viewbox[3])
    for leaf, ev, clipped in gl1:
        if ev.spec.units == "objectBoundingBox" and (clipped or leaf.stroke is not None):
            r.rejected = "fence:bbox-units+clip-or-stroke"
            return None
        if len(ev.spec.stops) >= 2 and ev.steepness() * ext * MIN_ROOT_LEN_PCT / 100.0 > 1.0:
            r.rejected = "fence:steep-gradient"
            return None
    for leaf in s1.leaves:
        if leaf.stroke_paint is not None and leaf.stroke_paint.kind == "gradient":
            r.rejected = "fence:gradient-stroke"
            return None
    try:
        s2 = render.build(out, strokes=True, gradients=True)
    except render.Unsupported as e:
        r.bad("output-unreadable", f"{label}converted document cannot be rendered: {e}; out={out[:300]}")
        return None
    gl2 = _gradient_leaves(s2)
    pts = [s1.sample_points(n_halton=160, n_edge=120)]
    p2 = s2.sample_points(n_halton=0, n_edge=60)
    if len(p2):
        pts.append(p2)
    for leaf, ev, _ in gl1[:6]:
        A = leaf.fill.A
        if len(A):
            B = leaf.fill.B
            lo = np.minimum(A.min(axis=0), B.min(axis=0))
            hi = np.maximum(A.max(axis=0), B.max(axis=0))
            pts.append(np.array(_halton_in((lo[0], lo[1], hi[0], hi[1]), 48, skip=7)))
    pts = np.concatenate(pts)
    r1 = s1.render(pts)
    r2 = s2.render(pts)
    seam = np.zeros(len(pts), dtype=bool)
    inside1 = []
    for leaf, ev, _ in gl1:
        ins = leaf.fill.inside(pts)
        inside1.append(ins)
        seam |= ins & ev.unstable(pts, T_SEAM)
    for leaf, ev, _ in gl2:
        seam |= leaf.fill.inside(pts) & ev.unstable(pts, T_SEAM)
    ok = r1.trusted & r2.trusted & ~seam
    stats = {"points": int(len(pts)), "trusted": int(ok.sum()), "covered": int((ok & r1.covered).sum()), "seam": int(seam.sum())}
    # per source gradient leaf: variation of its own colour over the compared interior points
    per = []
    for (leaf, ev, _), ins in zip(gl1, inside1):
        m = ins & ok
        n = int(m.sum())
        rng = 0.0
        if n >= 2:
            col, al = ev(pts[m])
            pm = np.concatenate([col * al[:, None], al[:, None]], axis=1)
            rng = float((pm.max(axis=0) - pm.min(axis=0)).max())
        per.append((ev.spec, n, rng))
    stats["leaves"] = per
    if stats["trusted"] < 20:
        r.rejected = "too-few-trusted-points"
        return stats
    d = np.abs(r1.rgba - r2.rgba).max(axis=1)
    bad = ok & (d > RGBA_TOL)
    if bad.any():
        i = int(np.nonzero(bad)[0][np.argmax(d[bad])])
        r.bad(
            "colour-differs",
            f"{label}{int(bad.sum())}/{stats['trusted']} compared points composite to a different colour, e.g. at ({pts[i][0]:.3f},{pts[i][1]:.3f}): "
            f"source rgba={np.round(r1.rgba[i], 3).tolist()} converted rgba={np.round(r2.rgba[i], 3).tolist()}; out={out[:600]}",
        )
        r.info = {"out": out, "point": pts[i].tolist()}
    return stats


# ------------------------------------------------------------------ F10 neutraliser (templates-first twin)


def _levels(root):
    lv = {}
    idx = {}

    def walk(e, d):
        lv[id(e)] = d
        idx[id(e)] = len(idx)
        for c in e:
            walk(c, d + 1)

    walk(root, 0)
    return lv, idx


def _templates_first_twin(src: str):
    """-> (twin_text, has_early_template).  All gradient elements are moved, templates before their users,
    into a new defs that is the first child of the root.  has_early_template: some gradient references a
    template that picosvg visits before it (deeper level, or same level and later in document order)."""
    ET.register_namespace("", "http://www.w3.org/2000/svg")
    ET.register_namespace("xlink", "http://www.w3.org/1999/xlink")
    root = ET.fromstring(src.encode("utf-8"))
    lv, idx = _levels(root)
    by_id = {}
    for e in root.iter():
        if e.get("id") is not None and e.get("id") not in by_id:
            by_id[e.get("id")] = e
    grads = [e for e in root.iter() if G.kind_of(e)]
    early = False
    tmpl = {}
    for g in grads:
        h = g.get(G.XLINK_HREF)
        t = by_id.get(h[1:]) if h and h.startswith("#") else None
        if t is not None and G.kind_of(t):
            tmpl[id(g)] = t
            if (lv[id(t)], idx[id(t)]) > (lv[id(g)], idx[id(g)]):
                early = True
    if not early:
        return None, False
    order = []
    done = set()

    def put(g, depth=0):
        if id(g) in done or depth > 20:
            return
        t = tmpl.get(id(g))
        if t is not None:
            put(t, depth + 1)
        if id(g) not in done:
            done.add(id(g))
            order.append(g)

    for g in grads:
        put(g)
    parents = {c: p for p in root.iter() for c in p}
    for g in grads:
        parents[g].remove(g)
    d = ET.Element(SVGNS + "defs")
    d.extend(order)
    root.insert(0, d)
    # drop defs that became empty
    for p in list(root.iter()):
        for c in list(p):
            if c.tag == SVGNS + "defs" and len(c) == 0:
                p.remove(c)
    return ET.tostring(root, encoding="unicode"), True


# ------------------------------------------------------------------ check


def check_doc(case) -> Result:
    r = Result()
    src = case["svg"]
    pinned = bool(case.get("pinned"))
    try:
        out = rendercmp.convert(src)
    except Exception as e:
        r.rejected = f"convert:{type(e).__name__}"
        return r
    stats = _compare(src, out, r)
    if r.rejected:
        return r
    _check_output_gradients(out, r)
    colour = [v for v in r.violations if v[0] in ("colour-differs",)]
    if colour and not pinned:
        # (1) engine attribution, as in rendercmp.compare
        try:
            from vlib.refsvg import polygonal

            twin, n = polygonal.polygonalise(src)
            if n > 0:
                r2 = Result()
                st2 = _compare(twin, rendercmp.convert(twin), r2)
                if st2 and not r2.violations and not r2.rejected:
                    r.violations = [v for v in r.violations if v[0] != "colour-differs"]
                    r.excluded = "ENGINE"
                    r.info = None
        except Exception:
            pass
    from vlib.run import open_finding_ids

    open_ids = open_finding_ids()  # neutralisers act only while their finding is listed as open
    f10_clauses = ("colour-differs", "output-unreadable")
    if "F10" in open_ids and any(v[0] in f10_clauses for v in r.violations) and not pinned:
        # (2) open finding F10 (an inherited, already-normalised value can also make the output gradient
        # unrenderable, e.g. a focal point that lands outside its circle)
        try:
            twin, early = _templates_first_twin(src)
            if early:
                r2 = Result()
                out2 = rendercmp.convert(twin)
                st2 = _compare(twin, out2, r2)
                if st2 and not r2.violations and not r2.rejected:
                    r.violations = [v for v in r.violations if v[0] not in f10_clauses]
                    r.excluded = "F10"
                    r.info = None
        except Exception:
            pass
    if "C06-BBOX-EMPTYSUB" in open_ids and any(v[0] == "colour-differs" for v in r.violations) and not pinned and stats and "leaves" in stats:
        # (3) open finding C06-BBOX-EMPTYSUB: remove_empty_subpaths drops area-less subpaths although they belong to the
        # bounding box an objectBoundingBox gradient (kept in bbox units under an identity CTM) refers to
        if any(sp.units == "objectBoundingBox" and sp.ctm_identity and sp.flat_subpath_extends_bbox for sp, _, _ in stats["leaves"]):
            r.violations = [v for v in r.violations if v[0] != "colour-differs"]
            r.excluded = "C06-BBOX-EMPTYSUB"
            r.info = None
    classes = set(case.get("feat", []))
    if stats and "leaves" in stats:
        nt = False
        for spec, n, rng in stats["leaves"]:
            varied = n >= 8 and rng > 16 / 255
            ctm = _ctm_class(spec.ctm)
            rewritten = ctm != "identity" or spec.units == "objectBoundingBox" or spec.chain > 0
            if not varied:
                continue
            kind = "linear" if spec.kind == "linearGradient" else "radial"
            units = "bbox" if spec.units == "objectBoundingBox" else "user"
            classes.update(
                {
                    f"kind:{kind}",
                    f"units:{units}",
                    f"spread:{spec.spread}",
                    f"ctm:{ctm}",
                    f"href-chain:{spec.chain}",
                    f"{units}+ctm:{ctm}",
                }
            )
            if spec.gradient_transform != render.IDENT:
                gt = _ctm_class(spec.gradient_transform)
                classes.add(f"gradientTransform:{gt}")
                if ctm != "identity":
                    classes.add("gradientTransform+ctm")
            if spec.chain:
                if spec.template_after_user:
                    classes.add("template-declared-after-user")
                if spec.template_before_user:
                    classes.add("template-declared-before-user")
                if spec.stops_depth > 0:
                    classes.add(f"stops-inherited:depth{spec.stops_depth}")
                if any(dd > 0 for dd in spec.attr_depth.values()):
                    classes.add("attrs-inherited")
                    if any(dd > 1 for dd in spec.attr_depth.values()):
                        classes.add("attrs-inherited:depth>=2")
                    if any(dd > 0 for a, dd in spec.attr_depth.items() if a in G.COMMON):
                        classes.add("attrs-inherited:common")
                    if any(dd > 0 for a, dd in spec.attr_depth.items() if a not in G.COMMON):
                        classes.add("attrs-inherited:geometry")
                if len(set(spec.kinds)) > 1:
                    classes.add("template-of-other-kind")
            if spec.percent_attrs:
                classes.add(f"percent:{units}")
                if "fr" in spec.percent_attrs or "r" in spec.percent_attrs:
                    classes.add(f"percent-radius:{units}")
            if kind == "radial":
                c = spec.coords
                if (c["fx"], c["fy"]) != (c["cx"], c["cy"]):
                    classes.add("radial:focal")
                if c["fr"] > 0:
                    classes.add("radial:fr")
            if rewritten:
                nt = True
        # several shapes painted by the same source gradient under different matrices
        mats = {}
        for spec, n, rng in stats["leaves"]:
            mats.setdefault((spec.kind, tuple(sorted(spec.coords.items())), spec.gradient_transform, len(spec.stops)), set()).add(spec.matrix)
        if any(len(v) > 1 for v in mats.values()):
            classes.add("gradient-shared-under-different-matrices")
        r.nontrivial = bool(nt and stats["trusted"] >= 20)
    r.classes = tuple(sorted(classes))
    return r


def _strategy(ctx):
    return c06_gen.document()


# ------------------------------------------------------------------ the unit step "bounding-box units -> user space" through the public API


@st.composite
def api_case(draw):
    kind = draw(st.sampled_from(["linearGradient", "radialGradient"]))
    a = {"id": "g"}
    num = st.sampled_from(["0", "0.25", "0.5", "1", "-0.2", "30%", "75%", "120%", "0.8"])
    names = ["x1", "y1", "x2", "y2"] if kind == "linearGradient" else ["cx", "cy", "r", "fx", "fy"]
    for nm in names:
        if draw(st.integers(0, 2)):
            a[nm] = draw(num) if nm != "r" else draw(st.sampled_from(["0.5", "0.3", "70%", "1"]))
    units = draw(st.sampled_from(["objectBoundingBox", "objectBoundingBox", None, "userSpaceOnUse"]))
    if units:
        a["gradientUnits"] = units
    if draw(st.integers(0, 3)):
        a["gradientTransform"] = draw(docs.transform_list(docs.Box(0.0, 0.0, 1.0, 1.0)))
    if draw(st.booleans()):
        a["spreadMethod"] = draw(st.sampled_from(["pad", "reflect", "repeat"]))
    q = st.integers(-400, 400).map(lambda v: v / 4.0)
    bbox = [draw(q), draw(q), draw(st.integers(1, 600)) / 4.0, draw(st.integers(1, 600)) / 4.0]
    vb = [draw(q), draw(q), draw(st.integers(8, 800)) / 2.0, draw(st.integers(8, 800)) / 2.0]
    return {"tag": kind, "attrs": a, "bbox": bbox, "viewbox": vb, "inplace": draw(st.booleans()), "twice": draw(st.booleans())}


def check_api(case) -> Result:
    """gradient.as_user_space_units(bbox): the returned gradient must map gradient space to user space exactly as
    'bounding-box matrix after gradientTransform' does (own arithmetic), keep every other field, and - in the copying
    form - leave the receiver as it was (so that the same gradient can be turned for the next shape)."""
    from lxml import etree
    from picosvg.geometric_types import Rect
    from picosvg.svg_types import SVGLinearGradient, SVGRadialGradient
    import dataclasses

    r = Result()
    a = case["attrs"]
    cls = SVGLinearGradient if case["tag"] == "linearGradient" else SVGRadialGradient
    el = etree.Element(case["tag"], {k: str(v) for k, v in a.items()})
    vb = Rect(*case["viewbox"])
    bbox = Rect(*case["bbox"])
    units = a.get("gradientUnits", "objectBoundingBox")
    r.classes = (case["tag"], "units:" + units, "inplace" if case["inplace"] else "copy", "gradientTransform" if "gradientTransform" in a else "no-gradientTransform") + (("second-shape",) if case["twice"] else ())
    try:
        g = cls.from_element(el, vb)
        pristine = cls.from_element(el, vb)
        if case["twice"] and not case["inplace"]:
            g.as_user_space_units(Rect(bbox.x + 7, bbox.y - 3, bbox.w * 2, bbox.h / 2))  # an earlier shape using the same gradient
        got = g.as_user_space_units(bbox, inplace=case["inplace"])
    except Exception as e:
        r.rejected = f"api:{type(e).__name__}"
        return r
    gt = render.parse_transform(a.get("gradientTransform"))
    want = render.mat_mul((bbox.w, 0.0, 0.0, bbox.h, bbox.x, bbox.y), gt) if units == "objectBoundingBox" else gt
    m = tuple(got.gradientTransform)
    pts = [(0.0, 0.0), (1.0, 0.0), (0.0, 1.0), (0.37, -0.81)]
    scale = max(1.0, max(abs(v) for v in want))
    for px, py in pts:
        wx, wy = want[0] * px + want[2] * py + want[4], want[1] * px + want[3] * py + want[5]
        gx, gy = m[0] * px + m[2] * py + m[4], m[1] * px + m[3] * py + m[5]
        if abs(wx - gx) > 1e-9 * scale or abs(wy - gy) > 1e-9 * scale:
            r.bad("api-matrix", f"{case['tag']} {a} .as_user_space_units({case['bbox']}, inplace={case['inplace']}) has gradientTransform {tuple(round(v, 6) for v in m)}; gradient-space point ({px},{py}) must land on ({wx:.6g},{wy:.6g}) (bounding-box matrix after gradientTransform) but lands on ({gx:.6g},{gy:.6g})")
            break
    if got.gradientUnits != "userSpaceOnUse":
        r.bad("api-units", f"result is labelled gradientUnits={got.gradientUnits}")
    for f in dataclasses.fields(got):
        if f.name in ("gradientTransform", "gradientUnits"):
            continue
        if getattr(got, f.name) != getattr(pristine, f.name):
            r.bad("api-field-changed", f"field {f.name} changed from {getattr(pristine, f.name)!r} to {getattr(got, f.name)!r}")
    if case["inplace"]:
        if got is not g:
            r.bad("api-inplace-identity", "the in-place form did not return the receiver")
    else:
        if got is g:
            r.bad("api-copy-identity", "the copying form returned the receiver itself")
        if g != pristine:
            r.bad("api-receiver-modified", f"the copying form modified its receiver: {g} (was {pristine})")
    r.nontrivial = units == "objectBoundingBox"
    return r


SUBCHECKS = {
    "doc": Sub("doc", check_doc, strategy=_strategy, examples={"quick": 500, "thorough": 1500}, describe=lambda c: c["svg"]),
    "api": Sub("api", check_api, strategy=lambda ctx: api_case(), examples={"quick": 400, "thorough": 5000}),
}
