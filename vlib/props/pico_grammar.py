"""Independent validator of the documented picosvg output grammar (README), working on the
SERIALISED output with the stdlib XML parser.  Used by C01 (and as output predicate by others)."""
from __future__ import annotations

import re
import xml.etree.ElementTree as ET
from decimal import Decimal

from vlib.refsvg.pathgrammar import parse as parse_path, PathSyntaxError

SVG = "{http://www.w3.org/2000/svg}"
INHERITED_PRESENTATION = {
    "fill", "fill-rule", "fill-opacity", "clip-rule", "color", "stroke", "stroke-width", "stroke-linecap", "stroke-linejoin",
    "stroke-miterlimit", "stroke-dasharray", "stroke-dashoffset", "stroke-opacity",
}
GRADIENT_NUMERIC = {"linearGradient": ("x1", "y1", "x2", "y2"), "radialGradient": ("cx", "cy", "r", "fx", "fy", "fr")}
_NUM_TOKEN = re.compile(r"[-+]?(?:\d+\.?\d*|\.\d+)(?:[eE][-+]?\d+)?")
TEXT_TAGS = {"text", "tspan", "textPath"}


def _style(el):
    out = {}
    for decl in (el.get("style") or "").split(";"):
        if ":" in decl:
            k, v = decl.split(":", 1)
            out[k.strip()] = v.strip()
    return out


def _local(tag):
    return tag[len(SVG) :] if isinstance(tag, str) and tag.startswith(SVG) else None


def validate(text: str, ndigits: int = 3, allow_text: bool = False):
    """-> list of (clause, message); empty = conforms."""
    bad = []

    def err(clause, msg):
        bad.append((clause, msg))

    try:
        parser = ET.XMLParser(target=ET.TreeBuilder(insert_comments=True, insert_pis=True))
        root = ET.fromstring(text.encode("utf-8"), parser)
    except ET.ParseError as e:
        return [("not-xml", f"output is not well-formed XML: {e}")]
    if root.tag != SVG + "svg":
        return [("root", f"root element is {root.tag}")]
    # global scans
    n_defs = 0
    for el in root.iter():
        if el.tag is ET.Comment:
            err("comment", "a comment survives")
            continue
        if el.tag is ET.ProcessingInstruction:
            err("processing-instruction", "a processing instruction survives")
            continue
        loc = _local(el.tag)
        if loc is None:
            err("foreign-element", f"foreign-namespace element {el.tag}")
            continue
        if loc == "defs":
            n_defs += 1
        for k in el.attrib:
            if k.startswith("{"):
                err("foreign-attribute", f"namespaced attribute {k} on <{loc}>")
    if "xlink:" in text:
        err("xlink", "an xlink reference/declaration survives")
    kids = [k for k in root if isinstance(k.tag, str)]
    if not kids or _local(kids[0].tag) != "defs":
        err("defs-first", "first child of the root is not <defs>")
    if n_defs != 1:
        err("defs-count", f"{n_defs} <defs> elements")
    # root presentation attributes
    for k in list(root.attrib) + list(_style(root)):
        if k in INHERITED_PRESENTATION:
            err("root-presentation", f"inheritable presentation attribute {k} on the root")
    # defs content
    for d in [k for k in kids if _local(k.tag) == "defs"]:
        for g in d:
            loc = _local(g.tag) if isinstance(g.tag, str) else None
            if loc not in GRADIENT_NUMERIC:
                err("defs-content", f"<{loc}> inside defs")
                continue
            if not g.get("id"):
                err("gradient-id", f"<{loc}> without id")
            stops = [s for s in g if isinstance(s.tag, str)]
            if not stops or any(_local(s.tag) != "stop" for s in stops):
                err("gradient-stops", f"gradient {g.get('id')} children: {[_local(s.tag) for s in stops]}")
            for a in GRADIENT_NUMERIC[loc]:
                v = g.get(a)
                if v is not None:
                    try:
                        float(v)
                        if "%" in v:
                            raise ValueError
                    except ValueError:
                        err("gradient-number", f"gradient {g.get('id')} {a}={v!r} is not a plain number")
            if any(k.endswith("href") for k in g.attrib):
                err("gradient-href", f"gradient {g.get('id')} still has an href")
    # drawable content
    def walk(el, in_text=False):
        loc = _local(el.tag) if isinstance(el.tag, str) else None
        if loc is None:
            return
        if loc in TEXT_TAGS and allow_text:
            return  # text subtrees pass through untouched
        if loc == "g":
            ch = [c for c in el if isinstance(c.tag, str)]
            if len(ch) < 2:
                err("group-children", f"<g> kept with {len(ch)} child(ren)")
            keys = set(el.attrib)
            if keys != {"opacity"}:
                err("group-attributes", f"<g> carries {sorted(keys)}")
            else:
                try:
                    o = float(el.get("opacity"))
                    if not (0 < o < 1):
                        err("group-opacity", f"<g opacity={el.get('opacity')}>")
                except ValueError:
                    err("group-opacity", f"<g opacity={el.get('opacity')!r}>")
            for c in ch:
                walk(c)
            return
        if loc == "path":
            st = _style(el)
            if el.get("transform") or "transform" in st:
                err("path-transform", "path with transform")
            cp = el.get("clip-path", st.get("clip-path", ""))
            if cp not in ("", "none"):
                err("path-clip", f"path with clip-path={cp}")
            sk = el.get("stroke", st.get("stroke", "none"))
            if sk != "none":
                err("path-stroke", f"path with stroke={sk}")
            fr = el.get("fill-rule", st.get("fill-rule", "nonzero"))
            if fr != "nonzero":
                err("path-fill-rule", f"path with fill-rule={fr}")
            d = el.get("d", "")
            try:
                cmds = parse_path(d)
            except PathSyntaxError as e:
                err("path-data", f"path data does not parse: {e}: {d[:80]!r}")
                cmds = []
            badc = sorted({c for c, _ in cmds if c not in "MLCQAZ"})
            if badc:
                err("path-commands", f"path data uses {badc}: {d[:80]!r}")
            for tok in _NUM_TOKEN.findall(d):
                v = Decimal(tok)
                if v != round(v, ndigits):
                    err("path-rounding", f"number {tok} in path data is not rounded to {ndigits} digits")
                    break
            if any(isinstance(c.tag, str) for c in el):
                err("path-children", "path with child elements")
            return
        err("element", f"<{loc}> in the output")

    for k in kids:
        if _local(k.tag) == "defs":
            continue
        walk(k)
    return bad
