"""C08 - converted documents have no duplicate, dangling or orphaned references."""
from __future__ import annotations

import re
import xml.etree.ElementTree as ET

from hypothesis import strategies as st

from vlib.run import Result, Sub
from vlib.gen import families, docs

from picosvg.svg import SVG

ID = "C08"
RULE = (
    "Hypothesis draws documents (all references resolve by construction) with sharing patterns: up to 5 gradients "
    "(href templates before/after their users) used by visible, invisible (opacity 0 / display none / fill none), "
    "transformed and untransformed shapes, as fill and as stroke paint; opacities whose product rounds to 0; roots without viewBox; id'd shapes and groups instanced 0-4 times by use; id'd shapes that are "
    "stroked (split in two paths); ids that collide with generated ones (g_0, grad1_0, nested-svg-viewport-0); nested "
    "svg with overflow hidden; clip ids shared by several elements. Oracle (validity predicate on the serialised "
    "output, stdlib parser): ids unique; every url(#x) in fill (attribute or style) names a gradient child of defs; every "
    "gradient in defs is referenced by at least one path; the same for topicosvg(drop_unsupported=True) on documents with unsupported containers (a, switch, mask, symbol, foreignObject) around rendered shapes; and SVG.resolve_use() alone must not return duplicate ids. Non-trivial = output has >= 1 gradient or >= 2 ids and the "
    "source had a shared or re-instanced id (use / gradient used by >= 2 shapes / stroked id'd shape); distinct = distinct source."
)
ASSUMPTIONS = ["every reference in the generated source resolves (the property is conditional on that)"]

SVGNS = "{http://www.w3.org/2000/svg}"


def analyse(out: str):
    root = ET.fromstring(out.encode())
    ids = {}
    dup = []
    for el in root.iter():
        i = el.get("id")
        if i is not None:
            if i in ids:
                dup.append(i)
            ids[i] = el
    grads = {}
    for d in root:
        if d.tag == SVGNS + "defs":
            for g in d:
                if g.tag in (SVGNS + "linearGradient", SVGNS + "radialGradient") and g.get("id"):
                    grads[g.get("id")] = g
    used = set()
    dangling = []
    for el in root.iter():
        if el.tag in (SVGNS + "linearGradient", SVGNS + "radialGradient", SVGNS + "stop"):
            continue
        vals = [el.get("fill", "")] + [d.split(":", 1)[1] for d in (el.get("style") or "").split(";") if d.strip().startswith("fill:")] + [el.get("stroke", "")]
        for v in vals:
            m = re.match(r"\s*url\(\s*#([^)\s]+)\s*\)", v or "")
            if m:
                if m.group(1) in grads:
                    used.add(m.group(1))
                else:
                    dangling.append(m.group(1))
    return dup, dangling, sorted(set(grads) - used), len(grads), len(ids)


def check_doc(case) -> Result:
    r = Result()
    feat = case.get("feat", [])
    r.classes = tuple(f for f in feat if f.startswith("family:") or f in ("use", "gradient-fill", "gradient-href", "gradient-stroke", "id-collision", "invisible-leaf", "root-no-viewbox", "fading-group", "drop_unsupported") or f.startswith("twin:"))
    drop = bool(case.get("drop_unsupported"))
    # the instancing step on its own (public SVG.resolve_use): copies of use targets must not repeat ids
    try:
        ru = SVG.fromstring(case["svg"]).resolve_use().tostring()
        src_dup = analyse(case["svg"])[0]
        ru_dup = analyse(ru)[0]
        if ru_dup and not src_dup:
            r.bad("duplicate-id-after-resolve-use", f"SVG.resolve_use() returned a document with duplicate ids {sorted(set(ru_dup))}; out={ru[:400]}")
    except Exception:
        pass
    try:
        out = SVG.fromstring(case["svg"]).topicosvg(drop_unsupported=drop).tostring()
    except Exception as e:
        r.rejected = f"convert:{type(e).__name__}"
        return r
    dup, dangling, unused, ngrad, nids = analyse(out)
    if dup:
        r.bad("duplicate-id", f"duplicate ids {dup}; out={out[:400]}")
    if dangling:
        r.bad("dangling-url", f"paint references {dangling} do not name a gradient in defs; out={out[:400]}")
    if unused:
        r.bad("unused-gradient", f"gradients {unused} in defs are not referenced by any path; out={out[:400]}")
    shared = any(f in feat for f in ("use", "gradient-fill", "stroke-own", "id-collision"))
    r.nontrivial = (ngrad >= 1 or nids >= 2) and shared
    return r


def _collide_hook(draw, cx, root):
    """Rename some generated ids so that they collide with ids picosvg generates itself."""
    pass


@st.composite
def c08_case(draw):
    root, feat = draw(families.any_document_ast(["gradient", "gradient-many", "gradient+stroke", "gradient+stroke", "stroke", "structural", "mixed", "cascade"]))
    if draw(st.integers(0, 5)) == 0:
        # "fading" group: opacities that are individually visible but whose product rounds to 0, next to content that
        # is invisible by itself - the group is first kept, then loses children to pruning and is dissolved
        groups = []

        def walk(n, in_defs):
            for c in n["c"]:
                if c["tag"] == "g" and not in_defs and any(k["tag"] in docs._SHAPE_TAGS for k in c["c"]):
                    groups.append(c)
                if not c["tag"].startswith("#"):
                    walk(c, in_defs or c["tag"] in ("defs", "clipPath"))

        walk(root, False)
        if groups:
            g = groups[draw(st.integers(0, len(groups) - 1))]
            g["s"].pop("opacity", None)
            g["a"]["opacity"] = draw(st.sampled_from(["0.02", "0.03", "0.01"]))
            leaves = [k for k in g["c"] if k["tag"] in docs._SHAPE_TAGS]
            for j, k in enumerate(leaves):
                k["s"].pop("opacity", None)
                if j == 0 or draw(st.booleans()):
                    k["a"]["opacity"] = draw(st.sampled_from(["0.02", "0.03", "0.01"]))
            if len(g["c"]) < 2 or draw(st.booleans()):
                g["c"].insert(draw(st.integers(0, len(g["c"]))), docs.node("rect", {"width": "10", "height": "10", draw(st.sampled_from(["fill", "display"])): "none"}))
            feat = feat + ["fading-group"]
    gids = [c["a"]["id"] for d in root["c"] if d["tag"] == "defs" for c in d["c"] if c["tag"] in ("linearGradient", "radialGradient") and "id" in c["a"]]
    if gids and draw(st.integers(0, 4)) == 0:
        # a gradient whose (possibly only) user paints with it as a stroke: it becomes the fill of the outline path
        g = draw(st.sampled_from(gids))
        n = docs.node(draw(st.sampled_from(["rect", "circle", "path"])), {"fill": draw(st.sampled_from(["none", "none", "gray"])), "stroke": f"url(#{g})", "stroke-width": draw(st.sampled_from(["2", "3.5", "6"]))})
        n["a"].update({"rect": {"x": "5", "y": "6", "width": "30", "height": "20"}, "circle": {"cx": "20", "cy": "20", "r": "12"}, "path": {"d": "M4,4 L40,8 L20,30"}}[n["tag"]])
        root["c"].append(n)
        feat = feat + ["gradient-stroke"]
    drop = False
    if draw(st.integers(0, 5)) == 0:
        # option path drop_unsupported=True: unsupported containers (a, switch, mask, symbol) around rendered shapes -
        # possibly the only users of a gradient - vanish late
        leaves = []

        def walk3(n, in_defs=False):
            for i, c in enumerate(n["c"]):
                if c["tag"] in docs._SHAPE_TAGS and not in_defs and "id" not in c["a"]:
                    leaves.append((n, i))
                if not c["tag"].startswith("#"):
                    walk3(c, in_defs or c["tag"] in ("defs", "clipPath"))

        walk3(root)
        uses_grad = [x for x in leaves if "url(" in (x[0]["c"][x[1]]["a"].get("fill", "") + x[0]["c"][x[1]]["s"].get("fill", ""))]
        pool = uses_grad if uses_grad and draw(st.integers(0, 2)) else leaves
        if pool:
            parent, i = pool[draw(st.integers(0, len(pool) - 1))]
            kind = draw(st.sampled_from(["a", "switch", "mask", "symbol", "foreignObject"]))
            attrs = {"a": {"xlink:href": "http://example.com/"}, "mask": {"id": "um1"}, "symbol": {"id": "us1"}}.get(kind, {})
            parent["c"][i] = docs.node(kind, attrs, c=[parent["c"][i]])
            drop = True
            feat = feat + ["unsupported-container", "drop_unsupported"]
    r = draw(st.integers(0, 9))
    if r <= 2:
        # a root without viewBox (r <= 1: without any size at all, r == 2: width/height instead) is accepted too
        vb = root["a"].pop("viewBox").split()
        if r == 2:
            root["a"]["width"], root["a"]["height"] = vb[2], vb[3]
        feat = feat + ["root-no-viewbox"]
    # id collisions: rename existing ids to names picosvg likes to generate
    if draw(st.integers(0, 2)) == 0:
        text = docs.serialize(root, root=True)
        ids = sorted(set(re.findall(r' id="([^"]+)"', text)))
        if ids:
            victim = draw(st.sampled_from(ids))
            # names picosvg would generate itself: <gradient id>_<n> for clones of transformed gradients
            # (derived from the gradients actually present), g_<n>, nested-svg-viewport-<n>
            gids = sorted(set(re.findall(r'<(?:linear|radial)Gradient id="([^"]+)"', text)))
            derived = [f"{g}_{n}" for g in gids for n in (0, 1) if g != victim]
            new = draw(st.sampled_from((derived * 3 if derived else []) + ["g_0", "nested-svg-viewport-0", "grad1_0"]))
            if new not in ids:
                text = text.replace(f'"{victim}"', f'"{new}"').replace(f"#{victim})", f"#{new})").replace(f'"#{victim}"', f'"#{new}"')
                return {"svg": text, "feat": feat + ["id-collision"], "drop_unsupported": drop}
    return {"svg": docs.serialize(root, root=True), "feat": feat, "drop_unsupported": drop}


SUBCHECKS = {
    "doc": Sub("doc", check_doc, strategy=lambda ctx: c08_case(), examples={"quick": 700, "thorough": 7000}, describe=lambda c: {"svg": c["svg"], "drop_unsupported": bool(c.get("drop_unsupported"))}),
}
