"""C12 - arc -> cubic conversion tracks the true elliptical arc.

Oracle: vlib.refsvg.arcref (SVG implementation notes F.6.5/F.6.6), geometric comparison in the
unit-circle frame of the corrected ellipse.
"""
from __future__ import annotations

import math

from hypothesis import strategies as st

from vlib.run import Result, Sub
from vlib.refsvg.arcref import centre_param

from picosvg.arc_to_cubic import arc_to_cubic
from picosvg.svg_types import SVGPath

ID = "C12"
RULE = (
    "Hypothesis draws (start, rx, ry, rotation, large, sweep, end): coordinates and radii log-uniform in "
    "1e-3..1e4 with random signs, rotation in [-720,720] degrees, 4 flag combinations, through both "
    "arc_to_cubic() and SVGPath.arcs_to_cubics() (absolute and relative arcs); boundary classes built on "
    "purpose: radii exactly fitting the chord (antipodal points of the ellipse), barely fitting (x(1+-1e-9), "
    "x(1+-1e-6)), too small (scaled up), everything in huge units (x1e5..1e9), zero radius, negative radius, coincident endpoints, half-circle chords, a relative arc whose offset equals the current point numerically. "
    "Oracle: own centre parameterisation; every cubic is sampled at 9 parameters and each sample must lie within "
    "0.03% of the corrected ellipse in its unit-circle frame, angles must advance monotonically in the sweep "
    "direction, total swept angle must equal the reference delta-theta (1e-6 rad), first point = start, last "
    "point == end exactly; near-coincident but distinct end points with the large-arc flag must still produce segments (end points closer than 1e-6 of the coordinate/radius magnitude are fenced: only no-exception and exact end are required there), zero radius -> one straight line, coincident endpoints -> nothing. "
    "Non-trivial = non-degenerate arc with rx != ry and rotation not a multiple of 90 degrees; distinct = distinct argument tuple."
)
ASSUMPTIONS = ["reference centre parameterisation (vlib/refsvg/arcref.py) follows SVG implementation notes F.6.5-F.6.6 (self-tested on hand-computed arcs)"]

REL_TOL = 3.0e-4  # 0.03 % of the corrected radii
SLACK = 2e-9


def _bez(p0, p1, p2, p3, t):
    mt = 1 - t
    a, b, c, d = mt * mt * mt, 3 * mt * mt * t, 3 * mt * t * t, t * t * t
    return (a * p0[0] + b * p1[0] + c * p2[0] + d * p3[0], a * p0[1] + b * p1[1] + c * p2[1] + d * p3[1])


def _segments(case):
    """Run the implementation. Returns list of (p1|None, p2|None, end) as plain tuples."""
    x1, y1, x2, y2 = case["x1"], case["y1"], case["x2"], case["y2"]
    rx, ry, rot, large, sweep = case["rx"], case["ry"], case["rot"], case["large"], case["sweep"]
    via = case.get("via", "fn")
    if via == "fn":
        out = []
        for p1, p2, e in arc_to_cubic((x1, y1), rx, ry, rot, large, sweep, (x2, y2)):
            out.append((None if p1 is None else tuple(p1), None if p2 is None else tuple(p2), tuple(e)))
        return out
    # through SVGPath.arcs_to_cubics, absolute or relative arc command
    p = SVGPath()
    if via == "abs":
        p._add_cmd("M", x1, y1)
        p._add_cmd("A", rx, ry, rot, large, sweep, x2, y2)
    else:
        p._add_cmd("M", x1, y1)
        p._add_cmd("a", rx, ry, rot, large, sweep, case["dx"], case["dy"])
    q = p.arcs_to_cubics()
    cmds = list(q)
    assert cmds[0][0] == "M", cmds
    out = []
    for c, a in cmds[1:]:
        if c == "C":
            out.append(((a[0], a[1]), (a[2], a[3]), (a[4], a[5])))
        elif c == "L":
            out.append((None, None, (a[0], a[1])))
        else:
            raise AssertionError(f"unexpected command {c} after arcs_to_cubics: {q.d}")
    return out


def check_arc(case) -> Result:
    r = Result()
    x1, y1, x2, y2 = case["x1"], case["y1"], case["x2"], case["y2"]
    rx, ry, rot, large, sweep = case["rx"], case["ry"], case["rot"], case["large"], case["sweep"]
    cls = [case.get("via", "fn"), case.get("kind", "random")]
    try:
        segs = _segments(case)
    except Exception as e:
        r.bad("raises", f"{case} raised {type(e).__name__}: {e}")
        return r
    if (x1, y1) == (x2, y2):
        cls.append("coincident")
        r.classes = tuple(cls)
        if segs:
            r.bad("coincident-endpoints", f"coincident endpoints must give no segment, got {segs}")
        return r
    if rx == 0 or ry == 0:
        cls.append("zero-radius")
        r.classes = tuple(cls)
        if len(segs) != 1 or segs[0][0] is not None or segs[0][1] is not None or segs[0][2] != (x2, y2):
            r.bad("zero-radius", f"zero radius must give one straight line to {(x2, y2)}, got {segs}")
        return r
    # Conditioning fence: end points closer than 1e-6 of the coordinate magnitude make the chord
    # direction (a difference of nearly equal floats) meaningless to ~1e-10 and worse; any
    # implementation loses the 0.03% there.  Such cases are only required not to raise and to end exactly.
    scale = max(abs(x1), abs(y1), abs(x2), abs(y2), min(abs(rx), abs(ry)))
    chord = math.hypot(x2 - x1, y2 - y1)
    if chord < 1e-6 * scale:
        cls.append("ill-conditioned(fenced)")
        r.classes = tuple(cls)
        if not segs and large and chord >= 1e-11 * max(scale, abs(rx), abs(ry)):
            # with the large-arc flag this is (almost) the whole ellipse (required while the gap is still resolvable in
            # double precision relative to the radii: >= 1e-11); without it the omitted piece is shorter
            # than 1e-6 of the scale and may vanish in rounding
            r.bad("near-coincident-dropped", f"end points differ (by {chord!r}) and large-arc is set, but the arc produced no segment at all: {case}")
        elif segs and segs[-1][2] != (x2, y2):
            r.bad("end-not-exact", f"last end point {segs[-1][2]} != arc end {(x2, y2)}")
        return r
    arc = centre_param(x1, y1, rx, ry, rot, large, sweep, x2, y2)
    if rx < 0 or ry < 0:
        cls.append("negative-radius")
    if arc.lam > 1 + 1e-6:
        cls.append("radii-scaled-up")
    elif arc.lam > 1 - 1e-6:
        cls.append("radii-barely-fit")
    cls.append(f"flags{int(bool(large))}{int(bool(sweep))}")
    r.classes = tuple(cls)
    r.nontrivial = abs(rx) != abs(ry) and (rot % 90.0) != 0
    if not segs:
        r.bad("no-segments", f"non-degenerate arc produced no segment: {case}")
        return r
    if any(s[0] is None for s in segs):
        r.bad("line-for-arc", f"non-degenerate arc produced a straight line: {case} -> {segs}")
        return r
    if segs[-1][2] != (x2, y2):
        r.bad("end-not-exact", f"last end point {segs[-1][2]} != arc end {(x2, y2)}")
    start = (x1, y1)
    sgn = 1.0 if arc.dtheta > 0 else -1.0
    total = 0.0
    prev_ang = None
    worst = 0.0
    for i, (p1, p2, e) in enumerate(segs):
        for k in range(9):
            t = k / 8.0
            p = _bez(start, p1, p2, e, t)
            u = arc.to_unit(p)
            rad = math.hypot(u[0], u[1])
            dev = abs(rad - 1.0)
            worst = max(worst, dev)
            if dev > REL_TOL + SLACK:
                r.bad("off-ellipse", f"segment {i} t={t}: point {p} is {dev*100:.5f}% of the corrected radii away from the true ellipse (limit 0.03%); case={case}")
                r.info = {"arc": arc._asdict(), "segments": segs}
                return r
            ang = math.atan2(u[1], u[0])
            if prev_ang is None:
                # first sample is the start point: angle must be theta1
                d0 = math.remainder(ang - arc.theta1, 2 * math.pi)
                if abs(d0) > 1e-6:
                    r.bad("wrong-start", f"curve starts at angle {ang}, arc starts at {arc.theta1}")
                    return r
            else:
                step = math.remainder(ang - prev_ang, 2 * math.pi)
                if step * sgn < -1e-7:
                    r.bad("not-monotone", f"segment {i} t={t}: angle moves against the sweep direction by {step}; case={case}")
                    r.info = {"arc": arc._asdict(), "segments": segs}
                    return r
                total += step
            prev_ang = ang
        start = e
    if abs(total - arc.dtheta) > 1e-6:
        r.bad("wrong-extent", f"swept angle {total} rad != {arc.dtheta} rad selected by large={large} sweep={sweep}; case={case}")
        r.info = {"arc": arc._asdict(), "segments": segs}
    return r


# ------------------------------------------------------------------ generators


def _mag():
    return st.floats(-3, 4).map(lambda e: 10.0**e)


def _coord():
    return st.one_of(st.tuples(_mag(), st.sampled_from([1, -1])).map(lambda t: t[0] * t[1]), st.sampled_from([0.0, 1.0, -1.0, 10.0, 100.0]))


def _rot():
    return st.one_of(st.floats(-720, 720), st.sampled_from([0.0, 30.0, 45.0, 90.0, -90.0, 180.0, 360.0, 450.0, -720.0, 720.0, 33.3]))


@st.composite
def arc_case(draw):
    kind = draw(st.sampled_from(["random"] * 6 + ["exact", "barely", "tiny-radii", "zero", "negative", "coincident", "half-circle", "near-coincident", "huge-units", "huge-units", "delta-equals-start"]))
    via = draw(st.sampled_from(["fn", "fn", "abs", "rel"]))
    large, sweep = draw(st.integers(0, 1)), draw(st.integers(0, 1))
    x1, y1 = draw(_coord()), draw(_coord())
    rot = draw(_rot())
    rx, ry = draw(_mag()), draw(_mag())
    x2, y2 = draw(_coord()), draw(_coord())
    if kind in ("exact", "barely"):
        # end points = antipodal points of an ellipse centred anywhere: radii exactly fit the chord
        th = draw(st.floats(0, 2 * math.pi))
        phi = math.radians(rot)
        c, s = math.cos(phi), math.sin(phi)
        ex, ey = rx * math.cos(th), ry * math.sin(th)
        px, py = c * ex - s * ey, s * ex + c * ey
        cx, cy = draw(_coord()), draw(_coord())
        x1, y1, x2, y2 = cx + px, cy + py, cx - px, cy - py
        if kind == "barely":
            k = draw(st.sampled_from([1 + 1e-9, 1 - 1e-9, 1 + 1e-6, 1 - 1e-6, 1 + 1e-12, 1 - 1e-12, 1 + 1e-3, 1 - 1e-3]))
            rx, ry = rx * k, ry * k
    elif kind == "tiny-radii":
        k = draw(st.sampled_from([1e-3, 1e-2, 0.1, 0.5]))
        d = math.hypot(x2 - x1, y2 - y1)
        rx, ry = k * d / 2 * draw(st.floats(0.5, 2)), k * d / 2
    elif kind == "zero":
        which = draw(st.integers(0, 2))
        if which in (0, 2):
            rx = 0.0
        if which in (1, 2):
            ry = 0.0
    elif kind == "negative":
        which = draw(st.integers(0, 2))
        if which in (0, 2):
            rx = -rx
        if which in (1, 2):
            ry = -ry
    elif kind == "coincident":
        x2, y2 = x1, y1
    elif kind == "near-coincident":
        # the "full circle with one arc" idiom with a minute gap: distinct end points, so the arc exists
        gap = draw(st.sampled_from([5e-10, 1e-10, 9e-10, 1e-12, 2e-9]))
        x2, y2 = x1, y1 + gap
        if (x2, y2) == (x1, y1):
            y2 = math.nextafter(y1, math.inf)
    elif kind == "half-circle":
        d = math.hypot(x2 - x1, y2 - y1)
        rx = ry = d / 2
    elif kind == "huge-units":
        # artwork in very large units (radii whose product exceeds 1/float-epsilon): nothing in the arc mathematics
        # depends on the unit
        S = draw(st.sampled_from([1e5, 1e6, 1e7, 1e8, 1e9]))
        x1, y1, x2, y2, rx, ry = x1 * S, y1 * S, x2 * S, y2 * S, rx * S, ry * S
    elif kind == "delta-equals-start":
        # a relative arc whose offset happens to be numerically equal to the current point (M10,10 a.. 10,10):
        # absolute and relative numbers must never be compared with each other
        via = "rel"
        if x1 == 0 and y1 == 0:
            x1, y1 = 10.0, 10.0
        x2, y2 = x1 + x1, y1 + y1
    case = dict(x1=x1, y1=y1, rx=rx, ry=ry, rot=rot, large=large, sweep=sweep, x2=x2, y2=y2, via=via, kind=kind)
    if via == "rel":
        # relative arc: the library computes the end as start + delta in floating point; so does the case
        dx, dy = x2 - x1, y2 - y1
        case.update(dx=dx, dy=dy, x2=x1 + dx, y2=y1 + dy)
    return case


SUBCHECKS = {
    "arc": Sub("arc", check_arc, strategy=lambda ctx: arc_case(), examples={"quick": 5000, "thorough": 25000}),
}
