"""C04 - strokes are rendered into equivalent filled outlines drawn above the fill."""
from __future__ import annotations

from hypothesis import strategies as st

from vlib.run import Result, Sub
from vlib.gen import docs
from vlib.props import rendercmp

ID = "C04"
RULE = (
    "Hypothesis draws documents of shapes and paths (open, closed, multi-subpath, curved, lines) with stroke, "
    "stroke-width (>= 2 user units), linecap butt/round/square, linejoin miter/round/bevel, miterlimit 1..10, dash arrays "
    "of odd and even length with offsets (negative, beyond the period), dash numbers spelt with exponents or a plus sign, twins (a stroked leaf repeated with identical geometry and only dashoffset / linecap / width / paint altered), stroke-opacity, fill none/solid/translucent, the "
    "stroke properties set on the shape or inherited from groups/use via attribute or style, under ancestor transform "
    "lists incl. non-uniform scale and skew. Oracle: three-valued stroke membership computed in the shape's own user "
    "space (definitely inside: within half width minus tau of a segment's perpendicular strip and, if dashed, inside an "
    "on-interval by tau; definitely outside: farther than half width x max(1, sqrt2 for square caps, miterlimit for "
    "miter joins) + tau from the path, or only near segments lying wholly in off-intervals; otherwise unknown and "
    "skipped; tau = 0.25 user units for curved paths (Skia's stroker resolution) + 0.1% of the viewBox); differential "
    "render of source and converted document comparing paint stack (stroke paint directly above the fill) and "
    "composited colour (opacities) at mutually trusted points. Sub-check 'api': svg_pathops.stroke() called directly with the same commands as tuple / list / generator / one-shot iterator must return the same outline. Non-trivial = the source has a stroked shape (own or inherited stroke), >= 30 mutually trusted points and >= 10 of them covered; distinct = distinct source text."
)
ASSUMPTIONS = [
    "vlib/refsvg/stroke3.py three-valued stroke model (self-tested); zero-length subpaths (dots) are unknown zones",
    "scope per property: no element opacity on shapes that have both fill and stroke; no group opacity in this campaign",
]

CFG = docs.Cfg(transforms=True, groups=True, use=True, nested=False, display=False, stroke=True, lines=True, max_leaves=4, translucent_fill=False)


def check_doc(case) -> Result:
    r = Result()
    src = case["svg"]
    try:
        out = rendercmp.convert(src)
    except Exception as e:
        r.rejected = f"convert:{type(e).__name__}"
        return r
    feat = case.get("feat", [])
    r.classes = tuple(feat)
    stats = rendercmp.compare(src, out, r, what=("stack", "rgba"), strokes=True, gradients=False, attribute=not case.get("pinned"))
    if stats and not r.rejected:
        r.nontrivial = bool(("stroke-own" in feat or "stroke-inherited" in feat) and stats["trusted"] >= 30 and stats["covered"] >= 10)
    return r


# ------------------------------------------------------------------ the stroker as a public function


@st.composite
def api_case(draw):
    n = draw(st.integers(1, 4))
    x, y = draw(st.integers(0, 40)), draw(st.integers(0, 40))
    cmds = [["M", [x, y]]]
    for _ in range(n):
        k = draw(st.sampled_from("LLLQC"))
        pts = [draw(st.integers(-20, 120)) for _ in range({"L": 2, "Q": 4, "C": 6}[k])]
        cmds.append([k, pts])
    if draw(st.booleans()):
        cmds.append(["Z", []])
    dash = draw(st.sampled_from([[], [], [10, 5], [4, 4, 1], [0, 8]]))
    return {
        "cmds": cmds, "cap": draw(st.sampled_from(["butt", "round", "square"])), "join": draw(st.sampled_from(["miter", "round", "bevel"])),
        "width": draw(st.sampled_from([2, 4.5, 10])), "miterlimit": draw(st.sampled_from([1, 4, 10])), "dash": dash,
        "offset": draw(st.sampled_from([0, 3, -2.5])) if dash else 0,
        "container": draw(st.sampled_from(["list", "generator", "iterator", "map"])),
    }


def check_api(case) -> Result:
    """svg_pathops.stroke accepts any iterable of commands (SVGCommandSeq = Iterable); what it returns must not depend on
    whether the commands arrive as a tuple, a list, a generator or a one-shot iterator (the other svg_pathops
    functions return generators, so chaining them hands stroke exactly that)."""
    from picosvg import svg_pathops

    r = Result()
    cmds = tuple((c, tuple(float(v) for v in a)) for c, a in case["cmds"])
    args = (case["cap"], case["join"], float(case["width"]), float(case["miterlimit"]), 0.1)
    kw = dict(dash_array=tuple(float(v) for v in case["dash"]), dash_offset=float(case["offset"]))
    r.classes = ("container:" + case["container"], "dashed" if case["dash"] else "solid")
    try:
        ref = tuple(svg_pathops.stroke(cmds, *args, **kw))
    except Exception as e:
        r.rejected = f"stroke:{type(e).__name__}"
        return r
    feed = {"list": lambda: list(cmds), "generator": lambda: (c for c in cmds), "iterator": lambda: iter(cmds), "map": lambda: map(lambda c: c, cmds)}[case["container"]]()
    try:
        got = tuple(svg_pathops.stroke(feed, *args, **kw))
    except Exception as e:
        r.bad("api-container-raises", f"stroke() of a {case['container']} of commands raised {type(e).__name__}: {e}; the same commands as a tuple are stroked fine; cmds={cmds}")
        return r
    if got != ref:
        r.bad("api-container-differs", f"stroke() of the same commands given as a {case['container']} returns another outline than for a tuple: {got[:6]}... vs {ref[:6]}...; cmds={cmds} params={args} {kw}")
    r.nontrivial = len(ref) >= 4 and case["container"] != "list"
    return r


SUBCHECKS = {
    "doc": Sub("doc", check_doc, strategy=lambda ctx: docs.document(CFG, hook=docs.stroke_hook), examples={"quick": 400, "thorough": 4000}, describe=lambda c: c["svg"]),
    "api": Sub("api", check_api, strategy=lambda ctx: api_case(), examples={"quick": 150, "thorough": 2000}),
}
