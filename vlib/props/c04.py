"""C04 - strokes are rendered into equivalent filled outlines drawn above the fill."""
from __future__ import annotations

from vlib.run import Result, Sub
from vlib.gen import docs
from vlib.props import rendercmp

ID = "C04"
RULE = (
    "Hypothesis draws documents of shapes and paths (open, closed, multi-subpath, curved, lines) with stroke, "
    "stroke-width (>= 2 user units), linecap butt/round/square, linejoin miter/round/bevel, miterlimit 1..10, dash arrays "
    "of odd and even length with offsets (negative, beyond the period), dash numbers spelt with exponents or a plus sign, twins (a stroked leaf repeated with identical geometry and only dashoffset / linecap / width / paint altered), stroke-opacity, fill none/solid/translucent, the "
    "stroke properties set on the shape or inherited from groups/use via attribute or style, under ancestor transform "
    "lists incl. non-uniform scale and skew. Oracle: three-valued stroke membership computed in the shape's own user "
    "space (definitely inside: within half width minus tau of a segment's perpendicular strip and, if dashed, inside an "
    "on-interval by tau; definitely outside: farther than half width x max(1, sqrt2 for square caps, miterlimit for "
    "miter joins) + tau from the path, or only near segments lying wholly in off-intervals; otherwise unknown and "
    "skipped; tau = 0.25 user units for curved paths (Skia's stroker resolution) + 0.1% of the viewBox); differential "
    "render of source and converted document comparing paint stack (stroke paint directly above the fill) and "
    "composited colour (opacities) at mutually trusted points. Non-trivial = the source has a stroked shape (own or inherited stroke), >= 30 mutually trusted points and >= 10 of them covered; distinct = distinct source text."
)
ASSUMPTIONS = [
    "vlib/refsvg/stroke3.py three-valued stroke model (self-tested); zero-length subpaths (dots) are unknown zones",
    "scope per property: no element opacity on shapes that have both fill and stroke; no group opacity in this campaign",
]

CFG = docs.Cfg(transforms=True, groups=True, use=True, nested=False, display=False, stroke=True, lines=True, max_leaves=4, translucent_fill=False)


def check_doc(case) -> Result:
    r = Result()
    src = case["svg"]
    try:
        out = rendercmp.convert(src)
    except Exception as e:
        r.rejected = f"convert:{type(e).__name__}"
        return r
    feat = case.get("feat", [])
    r.classes = tuple(feat)
    stats = rendercmp.compare(src, out, r, what=("stack", "rgba"), strokes=True, gradients=False, attribute=not case.get("pinned"))
    if stats and not r.rejected:
        r.nontrivial = bool(("stroke-own" in feat or "stroke-inherited" in feat) and stats["trusted"] >= 30 and stats["covered"] >= 10)
    return r


SUBCHECKS = {
    "doc": Sub("doc", check_doc, strategy=lambda ctx: docs.document(CFG, hook=docs.stroke_hook), examples={"quick": 400, "thorough": 4000}, describe=lambda c: c["svg"]),
}
