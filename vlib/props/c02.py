"""C02 - flattening groups, transforms, use and nested svg preserves the rendering."""
from __future__ import annotations

from hypothesis import strategies as st

from vlib.run import Result, Sub
from vlib.gen import docs
from vlib.props import rendercmp

ID = "C02"
RULE = (
    "Hypothesis draws documents over the structural grammar (7 basic shapes + paths over all 20 commands, groups to "
    "depth 4, transform lists of 1-3 matrix/translate/scale/rotate[cx cy]/skewX/skewY operations on shapes, groups and "
    "use, defs, acyclic use with x/y/transform, nested svg with x/y/width/height/viewBox/preserveAspectRatio (10 "
    "alignments incl. none x meet/slice/absent)/overflow, display:none, twins (a leaf repeated with identical geometry text and one paint property altered), fill-rule, semi-transparent fills so z-order is visible), one "
    "distinct palette colour per leaf. Oracle: the independent evaluator vlib.refsvg.render renders source and converted "
    "document at ~300 points (Halton points over the inflated viewBox + points offset by 2 and 4 epsilon along the "
    "normals of source and output edges); at every point farther than epsilon=0.4% of the viewBox extent from every "
    "fill/clip edge of both renderings the ordered stack of covering paints (order-sensitive hash) and the composited "
    "colour must agree. A conversion that raises is a rejection. Non-trivial = >=2 leaves in the source, a transform "
    "nested at depth >=2 or a use or a nested svg, >=20 mutually trusted points of which >=5 covered; distinct = "
    "distinct source text."
)
ASSUMPTIONS = [
    "vlib.refsvg.render implements the SVG 1.1 rendering model for the generated subset (self-tested on hand-computed scenes)",
    "fences: presentation attributes on nested svg, units/percentages, symbol, explicit rx=0 with ry>0 are not generated",
]

CFG = docs.Cfg(transforms=True, groups=True, use=True, nested=True, display=True, translucent_fill=True)


def check_doc(case) -> Result:
    r = Result()
    src = case["svg"]
    try:
        out = rendercmp.convert(src)
    except Exception as e:
        r.rejected = f"convert:{type(e).__name__}"
        return r
    stats = rendercmp.compare(src, out, r, what=("stack", "rgba"), strokes=False, gradients=False, attribute=not case.get("pinned"))
    feat = case.get("feat", [])
    r.classes = tuple(feat)
    if stats and not r.rejected:
        deep = any(f in feat for f in ("use", "nested-svg")) or ("transform" in feat and any(f.startswith("group-depth") and f[-1] in "234" for f in feat))
        r.nontrivial = stats["src_leaves"] >= 2 and deep and stats["trusted"] >= 20 and stats["covered"] >= 5
    return r


SUBCHECKS = {
    "doc": Sub("doc", check_doc, strategy=lambda ctx: docs.document(CFG), examples={"quick": 700, "thorough": 6000}, describe=lambda c: c["svg"]),
}
