"""C19 - clipping to the viewBox and bounding boxes are geometrically exact.

Part A (subs clip, cli): pico = SVG.fromstring(src).topicosvg(); clipped = pico.clip_to_viewbox().
  The oracle never looks at the source: it compares render(clipped) with render(pico) using the independent
  evaluator vlib.refsvg.render, and classifies every path of pico against the viewBox rectangle with its own
  geometry (own path interpreter, flattening, Liang-Barsky segment/rectangle test).
Part B (sub bbox): reported bounding boxes against vlib.refsvg.geom.tight_bounds (analytic extrema).
"""
from __future__ import annotations

import math
import os
import re
import subprocess
import sys
import xml.etree.ElementTree as ET

import numpy as np

from vlib.run import Result, Sub
from vlib.refsvg import geom, render
from vlib.refsvg.pathgrammar import parse as parse_path, PathSyntaxError
from vlib import c19_gen

from picosvg.svg import SVG

ID = "C19"
RULE = (
    "clip/cli: Hypothesis draws source documents of two families. 'placed' (3 of 4): viewBox with arbitrary origin "
    "(negative, positive, fractional) and size, or width/height only; 1-8 leaves, each fitted into a target box that "
    "is chosen per axis relative to the viewBox border (inside / entirely beyond / straddling the low or high border "
    "/ spanning both / touching the border exactly from outside or inside / flush / sticking out by a hair: 0.02-0.09% of the side), so all sides and corners occur; "
    "17 shape kinds (rect, rounded rect, ellipse, circle, right triangle whose empty half may be the only part of "
    "its box that reaches the viewBox, random polygon, pentagram, ring with same/opposite inner direction, "
    "quadratic lens whose control point sticks out of the curve's box, 4-quad blob, cubic arch, arc shapes, random "
    "paths over all commands, generic shapes), fill-rule evenodd/nonzero, fill-opacity, opacity, occasional "
    "transforms, groups (nested up to depth 2) with opacity so that the clip empties them or leaves one child. 'window' (1 of "
    "4): the shared structural grammar (groups, transform lists, use, opacity) with the viewBox a random sub-window "
    "of the area the shapes cover. Each source is converted (topicosvg; raising = rejection) and the picosvg is "
    "clipped through the library (sub clip) or through `python -m picosvg.picosvg --clip_to_viewbox` (sub cli, which "
    "also requires the same document as the library call). Oracle: render(clipped) vs render(picosvg) with "
    "vlib.refsvg.render at ~600 points (Halton inside the viewBox and over the viewBox inflated by 60%, points 2 and "
    "4 epsilon on both sides of the viewBox border, points 2/4 epsilon off the edges of both documents); at points "
    "inside the viewBox by > epsilon (0.4% of its extent) and farther than epsilon from every edge the ordered "
    "paint stack and the composited colour must agree; at points outside by > epsilon nothing may be painted; the "
    "number of path elements left must not exceed the number of original paths minus those whose region is farther "
    "than epsilon from the viewBox rectangle (own segment/rectangle test: such shapes must disappear, also when only "
    "their bounding box reaches in); no remaining path may reach beyond the viewBox rectangle by more than 2e-3 + 2e-6 x magnitude (exact test on own curve extrema, float32 engine slack); the result must satisfy the picosvg grammar (defs first, only g/path, g with "
    ">= 2 children and only an opacity strictly between 0 and 1, plain nonzero path fills). A render mismatch that "
    "disappears when the picosvg's curves are flattened to polygons before clipping is attributed to skia-pathops "
    "(ENGINE). Also on every picosvg: shape and document bounding boxes against own analytic bounds. Non-trivial = "
    "at least one path certainly outside (must be removed), one cut by the border and one inside, >= 20 trusted "
    "points inside and >= 20 outside; distinct = distinct source text. "
    "bbox: 1-4 untransformed shapes of all seven basic kinds and paths (recipes over all 20 commands, relative and "
    "absolute, families Q-only / C-only / arc-only / lines / mixed with random control points, so extrema lie "
    "strictly between control points; arcs with rotation and out-of-range radii; 1-3 subpaths, isolated and "
    "trailing movetos, drawing right after closepath) with coordinates up to +-300 and one decimal. Oracle: "
    "geom.tight_bounds (roots of the derivative for quads/cubics, centre parameterisation for arcs): the reported "
    "box must contain the tight box of the drawn segments, be contained in the tight box of drawn segments plus "
    "moveto points, and every side must touch that geometry within 1e-4 of the extent (+1e-5 relative for float32, "
    "+3e-4 of the radius for arcs, which the library approximates by cubics - C12's tolerance); SVG.bounding_box() "
    "must be the union of the shapes' boxes. Non-trivial = some quad/cubic/arc whose extremum lies strictly inside "
    "the segment (control-point box or chord box differs from the tight box by > 1e-3 of the extent); distinct = "
    "distinct case."
)
ASSUMPTIONS = [
    "vlib.refsvg.render / geom (self-tested) define the painted region; epsilon band 0.4% of the viewBox extent around every edge and around the viewBox border is not judged",
    "a clip_to_viewbox call that raises pathops.PathOpsError is a rejection (engine refused); any other exception from clip_to_viewbox on a picosvg is a violation (the property says the call yields a picosvg)",
    "shapes touching the viewBox border exactly, or closer than epsilon to it, may be kept or removed (float32 geometry); only shapes farther than epsilon from the rectangle must disappear",
    "bounding boxes of arcs are judged with an extra 3e-4 x radius (arc -> cubic approximation, bounded by C12); paths without any drawn segment and paths using a shorthand right after an omitted (zero-length) arc are fenced",
    "document bounding box: only documents without transforms (picosvg output, flat shape lists) - shape boxes are in user space by definition",
    "the CLI is run with the inherited environment (PYTHONPATH points at the tree under test)",
]
SHARDS = {"quick": 4, "thorough": 16}

SVGNS = "{http://www.w3.org/2000/svg}"
RGBA_TOL = 1.5 / 255


# ------------------------------------------------------------------ own geometry helpers


def _hits_rect(A, B, x0, y0, x1, y1):
    """Liang-Barsky: which segments A->B meet the closed rectangle."""
    n = len(A)
    if n == 0:
        return np.zeros(0, dtype=bool)
    D = B - A
    t0 = np.zeros(n)
    t1 = np.ones(n)
    ok = np.ones(n, dtype=bool)
    for p, q in ((-D[:, 0], A[:, 0] - x0), (D[:, 0], x1 - A[:, 0]), (-D[:, 1], A[:, 1] - y0), (D[:, 1], y1 - A[:, 1])):
        par = p == 0
        ok &= ~(par & (q < 0))
        with np.errstate(divide="ignore", invalid="ignore"):
            r = np.where(par, 0.0, q / np.where(par, 1.0, p))
        t0 = np.where(~par & (p < 0), np.maximum(t0, r), t0)
        t1 = np.where(~par & (p > 0), np.minimum(t1, r), t1)
    return ok & (t0 <= t1)


class _Leaf:
    __slots__ = ("subs", "A", "B", "rule", "drawn", "bounds", "cls", "side", "parent")


def _pico_leaves(text, vb, eps):
    """Own reading of a picosvg: every <path> in document order with its region and its position
    relative to the viewBox rectangle.  -> (leaves, groups, problem)"""
    root = ET.fromstring(text)
    x0, y0, x1, y1 = vb[0], vb[1], vb[0] + vb[2], vb[1] + vb[3]
    leaves, groups = [], []

    def walk(el, parent):
        for ch in el:
            if ch.tag == SVGNS + "g":
                g = {"n": 0, "out": 0, "kids": len(list(ch))}
                groups.append(g)
                walk(ch, g)
            elif ch.tag == SVGNS + "path":
                lf = _Leaf()
                lf.parent = parent
                if ch.get("transform"):
                    raise render.Unsupported("transform on a path")
                d = ch.get("d") or ""
                try:
                    cmds = parse_path(d) if d.strip() else []
                except PathSyntaxError as e:
                    raise render.Unsupported(f"path data {e}")
                lf.subs = geom.interpret(cmds) if cmds else []
                lf.drawn = any(s["segs"] for s in lf.subs)
                lf.rule = ch.get("fill-rule", "nonzero")
                polys = geom.flatten(lf.subs, eps / 20.0)
                lf.A, lf.B = geom.edges_of(polys, close=True)
                lf.bounds = geom.tight_bounds(lf.subs)
                _classify(lf, x0, y0, x1, y1, eps)
                leaves.append(lf)
                p = parent
                if p is not None:
                    p["n"] += 1
                    p["out"] += lf.cls == "out"

    walk(root, None)
    return leaves, groups


def _classify(lf, x0, y0, x1, y1, eps):
    lf.side = ""
    if not lf.drawn or lf.bounds is None or len(lf.A) == 0:
        lf.cls = "empty"
        return
    bx0, by0, bx1, by1 = lf.bounds
    centre = np.array([[(x0 + x1) / 2, (y0 + y1) / 2]])
    near = _hits_rect(lf.A, lf.B, x0 - eps, y0 - eps, x1 + eps, y1 + eps).any()
    covers = bool(geom.inside(centre, lf.A, lf.B, lf.rule)[0])
    sx = "L" if bx1 <= x0 else "R" if bx0 >= x1 else ""
    sy = "T" if by1 <= y0 else "B" if by0 >= y1 else ""
    if not near and not covers:
        lf.cls = "out"  # farther than eps from the rectangle: must disappear
        lf.side = (sy + sx) or "bbox-only-overlap"
        return
    if not near and covers:
        lf.cls = "cover"
        return
    if bx0 >= x0 and by0 >= y0 and bx1 <= x1 and by1 <= y1:
        lf.cls = "in"
        t = min(bx0 - x0, by0 - y0, x1 - bx1, y1 - by1)
        lf.side = "touch" if t <= 1e-9 * max(x1 - x0, y1 - y0) else ""
        return
    deep = _hits_rect(lf.A, lf.B, x0 + eps, y0 + eps, x1 - eps, y1 - eps).any() if (x1 - x0 > 2 * eps and y1 - y0 > 2 * eps) else False
    beyond = bx0 < x0 - eps or by0 < y0 - eps or bx1 > x1 + eps or by1 > y1 + eps
    if deep and beyond:
        lf.cls = "cut"
        s = ("T" if by0 < y0 - eps else "") + ("B" if by1 > y1 + eps else "") + ("L" if bx0 < x0 - eps else "") + ("R" if bx1 > x1 + eps else "")
        lf.side = s
        return
    lf.cls = "near"  # within eps of the border / touching: either fate is accepted
    if sx or sy:
        lf.side = "touch-out"


# ------------------------------------------------------------------ picosvg grammar (output of the clip)


def _grammar(text):
    """None or a reason.  c17.output_ok (shared minimal predicate) + the group / path rules of the README grammar."""
    from vlib.props.pico_grammar import validate

    # the README grammar as validated for C01, except the rounding of path numbers: clip_to_viewbox takes no
    # ndigits and the property does not ask the clipped coordinates to be rounded
    bad = [b for b in validate(text, 3, False) if b[0] != "path-rounding"]
    if bad:
        return f"{bad[0][0]}: {bad[0][1]}"
    root = ET.fromstring(text)
    for el in root.iter():
        if el.tag == SVGNS + "g":
            if len(list(el)) < 2:
                return f"group with {len(list(el))} child(ren) survives"
            extra = [k for k in el.attrib if k != "opacity"]
            if extra:
                return f"group carries {extra}"
            try:
                o = float(el.get("opacity", "1"))
            except ValueError:
                return "group opacity not a number"
            if not (0 < o < 1):
                return f"group with opacity {o} survives"
        elif el.tag == SVGNS + "path":
            for k in ("transform", "clip-path", "stroke", "style"):
                if el.get(k) not in (None, "none"):
                    return f"path carries {k}"
            if el.get("fill-rule", "nonzero") != "nonzero" or el.get("clip-rule", "nonzero") != "nonzero":
                return "path with evenodd rule"
            d = el.get("d")
            if d is not None and re.search(r"[^MLCQAZ0-9eE.,\s+-]", d):
                return f"path data uses other commands than absolute M/L/C/Q/A/Z: {d[:80]}"
    return None


# ------------------------------------------------------------------ render comparison


def _halton(i, base):
    f, r = 1.0, 0.0
    while i > 0:
        f /= base
        r += f * (i % base)
        i //= base
    return r


def _points(s1, s2, vb, eps):
    x, y, w, h = vb
    pts = []
    for i in range(1, 141):
        pts.append((x + w * _halton(i, 2), y + h * _halton(i, 3)))
    for i in range(1, 161):
        pts.append((x - 0.6 * w + 2.2 * w * _halton(i, 2), y - 0.6 * h + 2.2 * h * _halton(i, 3)))
    # both sides of the border, along each side extended by 25 %
    for k in range(14):
        t = -0.25 + 1.5 * (k + 0.37) / 14
        for off in (2.0, -2.0, 4.0, -4.0):
            o = off * eps
            pts.append((x + t * w, y + o))
            pts.append((x + t * w, y + h + o))
            pts.append((x + o, y + t * h))
            pts.append((x + w + o, y + t * h))
    P = [np.array(pts, dtype=float)]
    for s in (s1, s2):
        q = s.sample_points(n_halton=0, n_edge=120)
        if len(q):
            P.append(q)
    return np.concatenate(P)


def _render_compare(pico_text, clip_text, r: Result, label=""):
    """Adds render clauses; returns stats or None."""
    try:
        s1 = render.build(pico_text, strokes=False, gradients=False)
    except render.Unsupported as e:
        r.rejected = f"oracle-unsupported-pico:{str(e)[:40]}"
        return None
    try:
        s2 = render.build(clip_text, strokes=False, gradients=False)
    except render.Unsupported as e:
        r.bad("not-a-picosvg", f"{label}clipped document uses something outside the picosvg subset: {e}; clipped={clip_text[:300]}")
        return None
    vb = s1.viewbox
    eps = s1.eps
    s2.viewbox, s2.eps = vb, eps
    pts = _points(s1, s2, vb, eps)
    r1, r2 = s1.render(pts), s2.render(pts)
    x0, y0, x1, y1 = vb[0], vb[1], vb[0] + vb[2], vb[1] + vb[3]
    px, py = pts[:, 0], pts[:, 1]
    inside = (px > x0 + eps) & (px < x1 - eps) & (py > y0 + eps) & (py < y1 - eps)
    outside = (px < x0 - eps) | (px > x1 + eps) | (py < y0 - eps) | (py > y1 + eps)
    tin = inside & r1.trusted & r2.trusted
    tout = outside & r2.trusted
    stats = {
        "in": int(tin.sum()),
        "out": int(tout.sum()),
        "in_covered": int((tin & r1.covered).sum()),
        "out_covered_before": int((tout & r1.covered).sum()),
    }
    bad = tin & (r1.stack != r2.stack)
    if bad.any():
        i = int(np.nonzero(bad)[0][0])
        r.bad(
            "stack-differs",
            f"{label}{int(bad.sum())}/{stats['in']} trusted points inside the viewBox see a different ordered stack of paints after the clip, e.g. at "
            f"({pts[i][0]:.3f},{pts[i][1]:.3f}): before rgba={np.round(r1.rgba[i], 3).tolist()} after rgba={np.round(r2.rgba[i], 3).tolist()}; picosvg={pico_text[:500]} clipped={clip_text[:500]}",
        )
        r.info = {"pico": pico_text, "clipped": clip_text, "point": pts[i].tolist()}
    d = np.abs(r1.rgba - r2.rgba).max(axis=1)
    bad = tin & (d > RGBA_TOL)
    if bad.any():
        i = int(np.nonzero(bad)[0][np.argmax(d[bad])])
        r.bad(
            "colour-differs",
            f"{label}{int(bad.sum())}/{stats['in']} trusted points inside the viewBox composite to a different colour after the clip, e.g. at "
            f"({pts[i][0]:.3f},{pts[i][1]:.3f}): before rgba={np.round(r1.rgba[i], 3).tolist()} after rgba={np.round(r2.rgba[i], 3).tolist()}; picosvg={pico_text[:500]} clipped={clip_text[:500]}",
        )
        r.info = {"pico": pico_text, "clipped": clip_text, "point": pts[i].tolist()}
    bad = tout & r2.covered
    if bad.any():
        i = int(np.nonzero(bad)[0][0])
        r.bad(
            "painted-outside",
            f"{label}{int(bad.sum())}/{stats['out']} trusted points outside the viewBox {tuple(vb)} are still painted after the clip, e.g. at "
            f"({pts[i][0]:.3f},{pts[i][1]:.3f}) rgba={np.round(r2.rgba[i], 3).tolist()}; clipped={clip_text[:600]}",
        )
        r.info = {"pico": pico_text, "clipped": clip_text, "point": pts[i].tolist()}
    return stats


RENDER_CLAUSES = ("stack-differs", "colour-differs", "painted-outside")


def _lib_clip(pico_text):
    return SVG.fromstring(pico_text).clip_to_viewbox().tostring()


def _engine_twin_ok(pico_text, clip_fn):
    """True when the polygonal twin of the picosvg is clipped correctly by the same route."""
    try:
        from vlib.refsvg import polygonal

        twin, n = polygonal.polygonalise(pico_text)
        if n == 0:
            return False
        out2 = clip_fn(twin)
        r2 = Result()
        st2 = _render_compare(twin, out2, r2)
        return bool(st2) and not r2.violations and not r2.rejected and st2["in"] >= 20
    except Exception:
        return False


# ------------------------------------------------------------------ bounding boxes: the oracle


def _arc_slack(subs):
    s = 0.0
    for sub in subs:
        for seg in sub["segs"]:
            if seg[0] == "A":
                from vlib.refsvg import arcref

                p0, (rx, ry, rot, large, sweep), p1 = seg[1], seg[2], seg[3]
                arc = arcref.centre_param(p0[0], p0[1], rx, ry, rot, large, sweep, p1[0], p1[1])
                if arc is not None:
                    s = max(s, 3e-4 * max(arc.rx, arc.ry))
    return s


def _bbox_judge(subs, got, what):
    """got = (xmin, ymin, xmax, ymax) reported.  -> message or None."""
    drawn = geom.tight_bounds(subs)
    allb = geom.tight_bounds(subs, include_moves=True)
    if drawn is None:
        return None
    ext = max(drawn[2] - drawn[0], drawn[3] - drawn[1])
    mag = max(abs(v) for v in allb)
    slack32 = 1e-5 * max(mag, ext)
    arc = _arc_slack(subs)
    tol = 1e-4 * ext + slack32 + arc
    moves = [s["start"] for s in subs if not s["segs"]]
    names = ("x-min", "y-min", "x-max", "y-max")
    for i in range(4):
        sign = 1 if i < 2 else -1  # low sides: reported <= drawn ; high sides: reported >= drawn
        g, dr, al = got[i], drawn[i], allb[i]
        if not all(map(math.isfinite, got)):
            return f"{what}: reported box {got} is not finite"
        if sign * (g - dr) > slack32 + arc:
            return f"{what}: {names[i]} of the reported box {got} leaves part of the geometry outside: the curve reaches {dr!r} (tight box of the drawn segments {drawn})"
        if sign * (al - g) > slack32 + arc:
            return f"{what}: {names[i]} of the reported box {got} lies beyond every point of the path (drawn segments and moveto points reach {al!r})"
        touch = abs(g - dr) <= tol or any(abs(g - m[i % 2]) <= tol for m in moves)
        if not touch:
            return f"{what}: {names[i]} of the reported box {got} does not touch the geometry: tight box of the drawn segments is {drawn}, moveto points {moves[:4]} (tolerance {tol:.3g})"
    return None


def _ctrl_vs_tight(subs):
    """True if some curve has an extremum strictly inside the segment (control/chord box != tight box)."""
    for sub in subs:
        for seg in sub["segs"]:
            if seg[0] == "L":
                continue
            one = [{"start": seg[1], "segs": [seg], "closed": False}]
            tb = geom.tight_bounds(one)
            ext = max(tb[2] - tb[0], tb[3] - tb[1], 1e-12)
            if seg[0] == "A":
                pts = [seg[1], seg[3]]
            else:
                pts = list(seg[1:])
            cb = (min(p[0] for p in pts), min(p[1] for p in pts), max(p[0] for p in pts), max(p[1] for p in pts))
            ends = [seg[1], seg[-1]]
            eb = (min(p[0] for p in ends), min(p[1] for p in ends), max(p[0] for p in ends), max(p[1] for p in ends))
            if max(abs(a - b) for a, b in zip(cb, tb)) > 1e-3 * ext and max(abs(a - b) for a, b in zip(eb, tb)) > 1e-3 * ext:
                return True
            if seg[0] == "A" and max(abs(a - b) for a, b in zip(eb, tb)) > 1e-3 * ext:
                return True
    return False


def _rect_tuple(rc):
    return (float(rc.x), float(rc.y), float(rc.x + rc.w), float(rc.y + rc.h))


def _union(boxes):
    return (min(b[0] for b in boxes), min(b[1] for b in boxes), max(b[2] for b in boxes), max(b[3] for b in boxes))


def _doc_bbox_judge(svg: SVG, subs_list, r: Result, clause_shape, clause_doc, label):
    """svg: a picosvg SVG without transforms whose shapes correspond to subs_list in order."""
    shapes = svg.shapes()
    if len(shapes) != len(subs_list):
        return
    reported = []
    for i, (sh, subs) in enumerate(zip(shapes, subs_list)):
        got = _rect_tuple(sh.bounding_box())
        reported.append(got)
        if not any(s["segs"] for s in subs):
            continue
        msg = _bbox_judge(subs, got, f"{label}shape #{i} {type(sh).__name__}")
        if msg and not any(c == clause_shape for c, _ in r.violations):
            r.bad(clause_shape, msg)
    doc = svg.bounding_box()
    if not shapes:
        if doc is not None:
            r.bad(clause_doc, f"{label}document without shapes reports bounding box {doc}")
        return
    if doc is None:
        r.bad(clause_doc, f"{label}document with {len(shapes)} shapes reports no bounding box")
        return
    got = _rect_tuple(doc)
    want = _union(reported)
    mag = max(max(abs(v) for v in want), 1e-9)
    if max(abs(a - b) for a, b in zip(got, want)) > 1e-9 * mag:
        r.bad(clause_doc, f"{label}SVG.bounding_box() = {got} is not the union {want} of the shapes' boxes {reported[:6]}")


# ------------------------------------------------------------------ sub: clip


def _check_clip(case, route) -> Result:
    r = Result()
    src = case["svg"]
    try:
        pico = SVG.fromstring(src).topicosvg()
        pico_text = pico.tostring()
    except Exception as e:
        r.rejected = f"convert:{type(e).__name__}"
        return r
    classes = [f for f in case.get("feat", []) if not f.startswith("place:")]
    classes.append("gen:" + case.get("gen", "?"))

    # --- own reading of the picosvg
    try:
        sc = render.build(pico_text, strokes=False, gradients=False)
        vb, eps = sc.viewbox, sc.eps
        leaves, groups = _pico_leaves(pico_text, vb, eps)
    except render.Unsupported as e:
        r.rejected = f"oracle-unsupported-pico:{str(e)[:40]}"
        return r
    if not leaves:
        r.rejected = "empty-picosvg"
        return r

    # --- the operation under test
    lib_text = None
    attribute = not case.get("pinned")
    try:
        lib_text = SVG.fromstring(pico_text).clip_to_viewbox().tostring() if route == "cli" else pico.clip_to_viewbox().tostring()
    except Exception as e:
        if type(e).__name__ == "PathOpsError":
            r.rejected = "clip:PathOpsError"
            return r
        r.bad("clip-raises", f"clip_to_viewbox raised {type(e).__name__}: {e} on picosvg {pico_text[:800]}")
        r.classes = tuple(classes)
        return r
    if route == "cli":
        try:
            p = subprocess.run([sys.executable, "-m", "picosvg.picosvg", "--clip_to_viewbox"], input=src.encode(), stdout=subprocess.PIPE, stderr=subprocess.PIPE, timeout=300)
        except subprocess.TimeoutExpired:
            r.rejected = "cli-timeout(machine load)"  # inconclusive, never a violation
            return r
        if p.returncode != 0:
            r.bad("cli-differs", f"CLI --clip_to_viewbox exits {p.returncode} where the library call succeeds: {p.stderr.decode(errors='replace')[-400:]}; src={src[:600]}")
            return r
        clip_text = p.stdout.decode()
        if _canon(clip_text) != _canon(lib_text):
            r.bad("cli-differs", f"CLI --clip_to_viewbox output differs from topicosvg().clip_to_viewbox(): cli={clip_text[:500]} lib={lib_text[:500]}; src={src[:600]}")
            attribute = False  # the twin would go through the library, which is not what produced this output
    else:
        clip_text = lib_text

    # --- classes from own geometry
    cnt = {}
    for lf in leaves:
        cnt[lf.cls] = cnt.get(lf.cls, 0) + 1
        classes.append(f"leaf:{lf.cls}" + (f":{lf.side}" if lf.side else ""))
    for g in groups:
        if g["n"] == g["kids"] and g["n"] > 0:
            left = g["n"] - g["out"]
            if g["out"]:
                classes.append("group:emptied" if left == 0 else "group:reduced-to-1" if left == 1 else "group:reduced")
            else:
                classes.append("group:kept")
    n_out = cnt.get("out", 0)

    # --- grammar
    why = _grammar(clip_text)
    if why:
        r.bad("not-a-picosvg", f"clip_to_viewbox output violates the picosvg grammar ({why}): {clip_text[:700]}   picosvg before: {pico_text[:700]}")

    # --- shapes entirely outside must disappear
    n_before = len(leaves)
    try:
        n_after = sum(1 for el in ET.fromstring(clip_text).iter() if el.tag == SVGNS + "path")
    except ET.ParseError as e:
        r.bad("not-a-picosvg", f"clipped output is not XML: {e}")
        r.classes = tuple(dict.fromkeys(classes))
        return r
    if n_after > n_before - n_out:
        kept = [f"#{i} ({lf.side}) bounds={tuple(round(v, 3) for v in lf.bounds)}" for i, lf in enumerate(leaves) if lf.cls == "out"]
        r.bad(
            "outside-shape-kept",
            f"{n_out} of {n_before} paths lie farther than {eps:.3g} outside the viewBox {tuple(vb)} ({'; '.join(kept[:4])}) and must disappear, but {n_after} path elements are left: "
            f"clipped={clip_text[:700]}   picosvg before: {pico_text[:700]}",
        )
        r.info = {"pico": pico_text, "clipped": clip_text}

    # --- nothing is left beyond the border: exact (not epsilon-band) test on the curve extrema of every remaining path
    try:
        after, _ = _pico_leaves(clip_text, vb, eps)
    except Exception:
        after = []
    X0, Y0, X1, Y1 = vb[0], vb[1], vb[0] + vb[2], vb[1] + vb[3]
    for k, lf in enumerate(after):
        if lf.bounds is None or not lf.drawn:
            continue
        bx0, by0, bx1, by1 = lf.bounds
        slack = 2e-3 + 2e-6 * max(abs(v) for v in (X0, Y0, X1, Y1, bx0, by0, bx1, by1))  # the engine computes in float32
        over = max(X0 - bx0, Y0 - by0, bx1 - X1, by1 - Y1)
        if over > slack:
            classes.append("overhang-detected")
            r.bad(
                "beyond-border",
                f"path #{k} of the clipped document reaches {over:.6g} beyond the viewBox {tuple(vb)} (its curve bounds are {tuple(round(v, 6) for v in lf.bounds)}): "
                f"it was not cut at the border; clipped={clip_text[:600]}   picosvg before: {pico_text[:600]}",
            )
            r.info = {"pico": pico_text, "clipped": clip_text}
            break

    # --- rendering
    stats = _render_compare(pico_text, clip_text, r)
    if r.rejected:
        return r
    if stats and any(c in RENDER_CLAUSES for c, _ in r.violations) and attribute:
        if _engine_twin_ok(pico_text, _lib_clip):
            r.violations = [(c, m) for c, m in r.violations if c not in RENDER_CLAUSES]
            r.excluded = "ENGINE"
            if not r.violations:
                r.info = None

    # --- bounding boxes of the picosvg itself (shapes and document)
    try:
        _doc_bbox_judge(SVG.fromstring(pico_text), [lf.subs for lf in leaves], r, "bbox-not-tight", "doc-bbox-not-union", "picosvg ")
    except Exception as e:
        classes.append(f"bbox-raises:{type(e).__name__}")

    if stats:
        classes.append("outside-was-painted" if stats["out_covered_before"] else "nothing-outside")
        r.nontrivial = bool(n_out >= 1 and cnt.get("cut", 0) >= 1 and cnt.get("in", 0) >= 1 and stats["in"] >= 20 and stats["out"] >= 20)
        if n_out >= 1 and cnt.get("cut", 0) >= 1 and cnt.get("in", 0) >= 1:
            classes.append("removed+cut+untouched")
    r.classes = tuple(dict.fromkeys(classes))
    return r


def _canon(text):
    def c(el):
        return (el.tag, tuple(sorted(el.attrib.items())), (el.text or "").strip(), tuple(c(k) for k in el))

    try:
        return c(ET.fromstring(text))
    except ET.ParseError:
        return ("unparsable", text)


def check_clip(case) -> Result:
    return _check_clip(case, "lib")


def check_cli(case) -> Result:
    return _check_clip(case, "cli")


# ------------------------------------------------------------------ sub: bbox

_B = None


def _builder():
    global _B
    if _B is None:
        _B = render._Builder('<svg xmlns="http://www.w3.org/2000/svg" viewBox="0 0 1 1"/>')
    return _B


def check_bbox(case) -> Result:
    r = Result()
    shapes = case["shapes"]
    body = "".join("<" + s["tag"] + "".join(f' {k}="{v}"' for k, v in s["a"].items()) + "/>" for s in shapes)
    doc = f'<svg xmlns="http://www.w3.org/2000/svg" viewBox="0 0 100 100">{body}</svg>'
    classes = []
    subs_list = []
    b = _builder()
    for s in shapes:
        el = ET.fromstring(f'<{s["tag"]} xmlns="http://www.w3.org/2000/svg"' + "".join(f' {k}="{v}"' for k, v in s["a"].items()) + "/>")
        notes = []
        try:
            if s["tag"] == "path":
                subs = geom.interpret(parse_path(s["a"]["d"]), notes)
            else:
                sp = b.shape_subpaths(el)
                subs = sp[0] if sp else []
        except (render.Unsupported, PathSyntaxError, geom.PathError) as e:
            r.rejected = f"oracle-unsupported:{str(e)[:30]}"
            return r
        if notes:
            r.rejected = "fence:" + notes[0]
            return r
        if not any(x["segs"] for x in subs):
            r.rejected = "fence:nothing-drawn"
            return r
        subs_list.append(subs)
        classes.append("bbox:" + s["tag"])
        classes.extend(s.get("lab", []))
        kinds = {seg[0] for x in subs for seg in x["segs"]}
        if s["tag"] == "path":
            classes.append("segs:" + "".join(sorted(kinds)))
        if any(not x["segs"] for x in subs):
            classes.append("has-undrawn-moveto")
        if len([x for x in subs if x["segs"]]) > 1:
            classes.append("multi-subpath")
        if _ctrl_vs_tight(subs):
            classes.append("extremum-inside-segment")
            r.nontrivial = True
    try:
        svg = SVG.fromstring(doc)
        _doc_bbox_judge(svg, subs_list, r, "bbox-not-tight", "doc-bbox-not-union", "")
    except Exception as e:
        r.violations.clear()
        r.rejected = f"bbox:{type(e).__name__}"
        return r
    r.classes = tuple(dict.fromkeys(classes))
    return r


# ------------------------------------------------------------------ registry


def _describe(case):
    return case.get("svg", case)


SUBCHECKS = {
    "clip": Sub("clip", check_clip, strategy=lambda ctx: c19_gen.clip_case(), examples={"quick": 260, "thorough": 1500}, describe=_describe, shrink_s=25.0),
    "cli": Sub("cli", check_cli, strategy=lambda ctx: c19_gen.clip_case(), examples={"quick": 8, "thorough": 30}, describe=_describe, shrink_s=15.0),
    "bbox": Sub("bbox", check_bbox, strategy=lambda ctx: c19_gen.bbox_case(), examples={"quick": 1200, "thorough": 6000}),
}
