"""C14 - content that renderers ignore never influences the converted document."""
from __future__ import annotations

import copy
import zlib
import re
import xml.etree.ElementTree as ET

from hypothesis import strategies as st

from vlib.run import Result, Sub
from vlib.gen import families, docs, noise

from picosvg.svg import SVG

ID = "C14"
RULE = (
    "Hypothesis draws a document D from the union of the document families and 1-6 noise insertions N from: comment, "
    "processing instruction, title/desc/metadata (with text, foreign and SVG-looking children), foreign-namespace "
    "element (optionally with SVG-looking children) or attribute, id-less symbol with content, attribute-less wrapper "
    "<g> around 1-3 consecutive siblings (inside svg/g only), empty <g/>, inter-element whitespace, XML declaration, id-less symbol whose content carries ids, comment / processing instruction before or after the document element - "
    "at random legal tree positions incl. inside defs, clipPaths, gradients and groups. Oracle (metamorphic): "
    "both documents are loaded through the same public entry point (SVG.fromstring on str/bytes, SVG.parse on a path, a text file object, a binary file object, a BytesIO) and converted with the same ndigits (0..6); convert(N(D)) must equal convert(D) after canonicalising generated gradient ids (renumbered by first reference), "
    "sorting gradients in defs and comparing gradient numeric attributes with tolerance 1e-5 + 2e-6*S, S = largest gradient number of the document (double rounding of the 6-decimal gradient parameters, scaled by bounding box and ancestor transforms); if one side raises the other must "
    "raise too. Non-trivial = some noise landed inside a group/defs/clipPath/gradient (not only at root level) and "
    "convert(D) has >= 2 paths; distinct = distinct (D, N(D))."
)
ASSUMPTIONS = [
    "noise is inserted only where SVG allows that kind of node (wrapper groups not inside clipPath/gradient)",
    "comments/PIs before the root element and an XML declaration are part of the noise",
]

SVGNS = "{http://www.w3.org/2000/svg}"


def canon(out: str):
    """Canonical form: gradient ids renumbered by first reference in document order, defs sorted,
    gradient numbers rounded to 5e-6 grid; returns a comparable string."""
    root = ET.fromstring(out.encode())
    defs = [d for d in root if d.tag == SVGNS + "defs"]
    order = []
    for el in root.iter():
        if el.tag in (SVGNS + "path", SVGNS + "g", SVGNS + "text"):
            for v in (el.get("fill", ""), el.get("style", "")):
                for m in re.finditer(r"url\(#([^)]+)\)", v or ""):
                    if m.group(1) not in order:
                        order.append(m.group(1))
    ren = {g: f"G{i}" for i, g in enumerate(order)}
    for el in root.iter():
        for k in ("fill", "style"):
            v = el.get(k)
            if v and "url(#" in v:
                el.set(k, re.sub(r"url\(#([^)]+)\)", lambda m: f"url(#{ren.get(m.group(1), m.group(1))})", v))
    for d in defs:
        grads = list(d)
        for g in grads:
            if g.get("id") in ren:
                g.set("id", ren[g.get("id")])
            for k, v in list(g.attrib.items()):
                if k == "gradientTransform":
                    nums = re.findall(r"[-+]?(?:\d+\.?\d*|\.\d+)(?:[eE][-+]?\d+)?", v)
                    g.set(k, v.split("(")[0] + "(" + " ".join(f"{float(n):.7f}" for n in nums) + ")")
                else:
                    try:
                        g.set(k, f"{float(v):.7f}")
                    except ValueError:
                        pass
        grads.sort(key=lambda g: g.get("id") or "")
        for g in list(d):
            d.remove(g)
        for g in grads:
            d.append(g)
    return ET.tostring(root, encoding="unicode")


_GNUM = re.compile(r"-?\d+\.\d{7}")


def _same_up_to_last_digit(a: str, b: str) -> bool:
    """canon() prints every gradient number with 7 decimals; two canonical documents are equivalent when they
    are identical apart from those numbers and corresponding numbers differ by at most 1e-5 + 2e-6*S, S = largest gradient number of the document.
    Gradient parameters are rounded to 6 decimals, sometimes twice: once when the gradient element is normalised in
    place and once more for the copy made for a transformed shape; whether the copy starts from the rounded or the
    unrounded original depends on the processing order, which noise may change.  The half unit of the 6th decimal
    lost in the first rounding (relative 5e-7 for entries of magnitude ~1) is then multiplied by the bounding-box
    size and the ancestor scale (0.866025 vs 0.8660254, times 92.5, gives 80.107313 vs 80.107350), so the
    allowance for "the last rounded digit" has to be relative to the number's magnitude."""
    if _GNUM.sub("#", a) != _GNUM.sub("#", b):
        return False
    na, nb = [float(x) for x in _GNUM.findall(a)], [float(x) for x in _GNUM.findall(b)]
    # the scale is the largest gradient number of the document, not the number itself: folding the translation into
    # x1..y2 adds and subtracts terms of that size, so a small result carries their absolute error (5.269231 vs
    # 5.269177 next to y1=-96.55, x2=133.27)
    scale = max([1.0] + [abs(v) for v in na + nb])
    return len(na) == len(nb) and all(abs(x - y) <= 1e-5 + 2e-6 * scale for x, y in zip(na, nb))


def _load(s, entry):
    """The public ways of getting a document into an SVG object."""
    import io
    import os
    import tempfile

    if entry == "fromstring":
        return SVG.fromstring(s)
    if entry == "fromstring-bytes":
        return SVG.fromstring(s.encode("utf-8"))
    if entry == "parse-bytesio":
        return SVG.parse(io.BytesIO(s.encode("utf-8")))
    fd, path = tempfile.mkstemp(suffix=".svg")
    try:
        with os.fdopen(fd, "w", encoding="utf-8") as f:
            f.write(s)
        if entry == "parse-path":
            return SVG.parse(path)
        with open(path, "rb" if entry == "parse-file-rb" else "r", **({} if entry == "parse-file-rb" else {"encoding": "utf-8"})) as f:
            return SVG.parse(f)
    finally:
        os.unlink(path)


def _conv(s, nd=3, entry="fromstring"):
    try:
        return _load(s, entry).topicosvg(ndigits=nd).tostring(), None
    except Exception as e:
        return None, type(e).__name__


def check_pair(case) -> Result:
    r = Result()
    labels = case.get("noise", [])
    r.classes = tuple(sorted({l.split("@")[0] for l in labels})) + tuple(sorted({"in:" + l.split("@")[1] for l in labels if "@" in l}))
    nd, entry = case.get("ndigits", 3), case.get("entry", "fromstring")
    r.classes += (f"ndigits={nd}", "entry:" + entry)
    o1, e1 = _conv(case["base"], nd, entry)
    o2, e2 = _conv(case["noisy"], nd, entry)
    if e1 or e2:
        if bool(e1) != bool(e2):
            r.bad("raises-differently", f"without noise: {e1 or 'converts'}; with noise {labels}: {e2 or 'converts'}; noisy={case['noisy'][:500]}")
        else:
            r.rejected = f"convert:{e1}"
        return r
    try:
        c1, c2 = canon(o1), canon(o2)
    except Exception as e:
        r.rejected = f"canon:{type(e).__name__}"
        return r
    if c1 != c2 and _same_up_to_last_digit(c1, c2):
        c2 = c1  # differs only in the last rounded digit of gradient parameters: allowed by the property
    if c1 != c2:
        i = next((k for k, (a, b) in enumerate(zip(c1, c2)) if a != b), min(len(c1), len(c2)))
        r.bad("output-differs", f"noise {labels} changed the converted document at {i}: ...{c1[max(0, i - 80) : i + 80]!r} vs ...{c2[max(0, i - 80) : i + 80]!r}; noisy={case['noisy'][:400]}")
        r.info = {"o1": o1, "o2": o2}
    if c1 == c2:
        # the parsed comparison above cannot see namespace declarations nobody uses; they are part of the converted
        # document all the same: the root start tag must declare the same namespaces with and without the noise
        ns1, ns2 = (sorted(set(re.findall(r'\sxmlns(?::[\w.-]+)?="[^"]*"', o[o.index("<svg") : o.index(">", o.index("<svg"))]))) for o in (o1, o2))
        if ns1 != ns2:
            r.bad("output-differs", f"noise {labels} changed the namespace declarations of the output root: {ns1} vs {ns2}; noisy={case['noisy'][:400]}")
            r.info = {"o1": o1, "o2": o2}
    deep = any("@" in l and l.split("@")[1] not in ("svg", "document") for l in labels)
    r.nontrivial = deep and o1.count("<path") >= 2
    return r


@st.composite
def c14_case(draw):
    root, feat = draw(families.any_document_ast())
    marked = None
    if draw(st.integers(0, 3)) == 0:
        # a shape whose opacity has more decimals than the default rounding keeps (matters for ndigits > 3) ...
        leaves = [n for n in noise._elements(root) if n["tag"] in docs._SHAPE_TAGS]
        if leaves:
            marked = draw(st.sampled_from(["0.37255", "0.654321", "0.12345"]))
            lf = leaves[draw(st.integers(0, len(leaves) - 1))]
            lf["s"].pop("opacity", None)
            lf["a"]["opacity"] = marked
    base = docs.serialize(root, root=True)
    noisy_root = copy.deepcopy(root)
    labels, prolog, foreign = noise.insert_noise(draw, noisy_root, 1, 6)
    if marked and draw(st.booleans()):
        # ... and an attribute-less wrapper group right around it
        def wrap(n):
            for i, c in enumerate(n["c"]):
                if c["a"].get("opacity") == marked and c["tag"] in docs._SHAPE_TAGS and n["tag"] in ("svg", "g"):
                    n["c"][i] = docs.node("g", c=[c])
                    labels.append("wrapper-g@" + n["tag"])
                    return True
                if not c["tag"].startswith("#") and wrap(c):
                    return True
            return False

        wrap(noisy_root)
    noisy = docs.serialize(noisy_root, root=True, extra_ns=noise.FOREIGN_NS if foreign else "", prolog=prolog)
    if zlib.crc32(base.encode()) % 4 == 0:
        # both documents also declare the SVG namespace under a prefix next to the default declaration (plain-SVG
        # exports do): whether that declaration survives must not depend on the noise (choice = checksum of the
        # text, no random draw spent)
        both = ' xmlns:svg="http://www.w3.org/2000/svg"'
        base = docs.serialize(root, root=True, extra_ns=both.strip())
        noisy = docs.serialize(noisy_root, root=True, extra_ns=(both.strip() + " " + noise.FOREIGN_NS) if foreign else both.strip(), prolog=prolog)
        labels.append("svg-prefix-declared-on-both-roots")
    case = {"base": base, "noisy": noisy, "noise": labels, "feat": feat}
    case["ndigits"] = draw(st.sampled_from([3, 3, 3, 5, 6, 1, 0] + ([5, 6, 4] if marked else [])))
    # the XML declaration is only legal for str input without an encoding pseudo-attribute / for bytes input
    entries = ["fromstring", "fromstring", "parse-path", "parse-file", "parse-file-rb", "parse-bytesio"]
    case["entry"] = draw(st.sampled_from(entries)) if "encoding" not in prolog else draw(st.sampled_from(["fromstring-bytes", "parse-path", "parse-file-rb", "parse-bytesio"]))
    return case


SUBCHECKS = {
    "pair": Sub("pair", check_pair, strategy=lambda ctx: c14_case(), examples={"quick": 450, "thorough": 5000}, describe=lambda c: {"noisy": c["noisy"], "noise": c["noise"], "ndigits": c.get("ndigits", 3), "entry": c.get("entry", "fromstring")}),
}
