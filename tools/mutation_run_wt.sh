#!/bin/bash
# mutation_run_wt.sh <seeded-id> [tier] [property] : like mutation_run.sh but never touches /repo:
# applies seeded/<id>/patch.diff in a private scratch worktree of /repo HEAD and points the check at
# it with PICOSVG_SRC.  Safe to run concurrently.  Prints CAUGHT / MISSED.
set -u
ID="$1"; TIER="${2:-quick}"
cd /verif
P="${3:-$(python3 -c "import json;print(json.load(open('${SEEDED_DIR:-seeded}/$ID/meta.json'))['property'])")}"
W="/tmp/mutwt.$ID.$$"
git -C /repo worktree add --detach "$W" HEAD >/dev/null 2>&1 || { echo "worktree failed"; exit 2; }
trap 'git -C /repo worktree remove --force "$W" >/dev/null 2>&1' EXIT
PATCH="/verif/${SEEDED_DIR:-seeded}/$ID/patch.diff"
[ -f "/verif/${SEEDED_DIR:-seeded}/$ID/patch-rebased.diff" ] && PATCH="/verif/${SEEDED_DIR:-seeded}/$ID/patch-rebased.diff"   # same change, re-based after /repo fix commits
git -C "$W" apply "$PATCH" || { echo "$ID: patch does not apply to current /repo HEAD"; exit 3; }
mkdir -p out
PICOSVG_SRC="$W/src" VERIF_EVIDENCE_DIR="/verif/out/evidence-mut" ./check "$P" "$TIER" > "out/mut-$ID-$P.log" 2>&1; rc=$?
v=$(grep -c '^VIOLATION' "out/mut-$ID-$P.log")
if [ $rc -eq 1 ]; then echo "$ID [$P $TIER]: CAUGHT ($v violation lines) $(grep -m1 '^\[' out/mut-$ID-$P.log | cut -c1-220)";
elif [ $rc -eq 0 ]; then echo "$ID [$P $TIER]: MISSED"; else echo "$ID [$P $TIER]: HARNESS rc=$rc"; tail -5 "out/mut-$ID-$P.log"; fi
