#!/bin/bash
# run_all.sh [tier] [seed] : every registered check once; prints one summary line per property.
cd /verif
TIER="${1:-quick}"; export VERIF_SEED="${2:-1}"
python3 -c "import json;print('\n'.join(c['property_id'] for c in json.load(open('MANIFEST.json'))['checks']))" | \
  xargs -P "${PAR:-3}" -I{} bash -c './check {} '"$TIER"' > out/all-{}.log 2>&1; rc=$?; echo "rc=$rc $(grep -v KNOWN out/all-{}.log | tail -1 | cut -c1-200)"' | sort -k2
