#!/usr/bin/env python3
"""Regenerates /verif/MANIFEST.json from the table below (kept in one place so the manifest is
always valid and in step with what is built).  Run: python3 tools/mkmanifest.py"""
import json
import os

HERE = os.path.dirname(os.path.dirname(os.path.abspath(__file__)))

# property id -> {technique, level_text, level_note, design_ref}; edit tools/claimed.json
CLAIMED = {k: (v["technique"], v["level_text"], v["level_note"], v["design_ref"]) for k, v in json.load(open(os.path.join(HERE, "tools", "claimed.json"))).items()}

NOT_YET = "check not built yet in this round (work in progress; see DESIGN.md section 5 for the order of work)"


def main():
    props = [json.loads(l) for l in open(os.path.join(HERE, "properties.jsonl"))]
    checks = []
    na = []
    for p in props:
        pid = p["id"]
        if pid in CLAIMED:
            tech, text, note, ref = CLAIMED[pid]
            checks.append(
                {
                    "property_id": pid,
                    "quick_cmd": f"./check {pid} quick",
                    "thorough_cmd": f"./check {pid} thorough",
                    "evidence_file": f"evidence/{pid}.json",
                    "replay_cmd_template": f"./check {pid} --replay {{path}}",
                    "engine": "vlib",
                    "level_claimed": {"category": "exploration", "text": text, "design_ref": ref},
                    "level_note": note,
                    "technique": tech,
                }
            )
        else:
            na.append({"property_id": pid, "reason": NOT_YET})
    m = {
        "version": 1,
        "setup_cmd": "./check --setup",
        "hooks": {
            "guard": "PICOSVG_VERIF",
            "enable": "no source hooks are needed: picosvg is pure Python and is imported from /repo/src (PYTHONPATH set by ./check); PICOSVG_VERIF=1 is exported by ./check but nothing in /repo reads it",
            "baseline_off_cmd": "cd /repo && /venv/bin/python -m pytest -ra -q -p no:cacheprovider --timeout=900 --continue-on-collection-errors",
            "source_commits": [],
            "add_only": True,
        },
        "engines": [
            {
                "name": "vlib",
                "path": "vlib/",
                "serves_properties": sorted(CLAIMED),
                "kind_free_text": "Hypothesis-driven property-based testing + exhaustive small-scope enumeration, sharded over processes, against independent reference oracles (vlib/refsvg); collect-then-shrink; JSON replay files",
            }
        ],
        "checks": checks,
        "not_applicable": na,
        "notes": "All checks: ./check <id> quick|thorough, VERIF_SEED honoured, exit 0/1/2 = held/violation/harness error. Fix commits in /repo are listed in known_findings.json as fixed entries.",
    }
    json.dump(m, open(os.path.join(HERE, "MANIFEST.json"), "w"), indent=1)
    print(f"MANIFEST.json: {len(checks)} checks, {len(na)} not_applicable")


if __name__ == "__main__":
    main()
