#!/usr/bin/env python3
"""Regenerates /verif/MANIFEST.json from the table below (kept in one place so the manifest is
always valid and in step with what is built).  Run: python3 tools/mkmanifest.py"""
import json
import os

HERE = os.path.dirname(os.path.dirname(os.path.abspath(__file__)))

# property id -> (technique, level text, level note, design ref)
CLAIMED = {
    "C10": (
        "differential testing against an independent SVG 1.1 path-BNF parser: exhaustive small-scope string/token enumeration + Hypothesis grammar-derived and mutated strings; print/parse round-trip over arbitrary finite floats",
        "Exploration. Every string up to a length bound over an 11-character alphabet (4 prefixes) and every short token sequence over 15 number spellings x 6 separators is compared with an independent maximal-munch parser of the SVG 1.1 path BNF; longer strings and float round-trips are sampled with Hypothesis. Bounded scopes are enumerated completely, the rest is sampled: absence of violations is not established beyond those scopes.",
        "Trusted: the reference parser vlib/refsvg/pathgrammar.py (self-tested in setup), Python float() for token values.",
        "DESIGN.md 2/C10",
    ),
    "C12": (
        "Hypothesis-generated arcs (log-uniform magnitudes, boundary classes built on purpose) checked geometrically against an independent centre parameterisation (SVG implementation notes F.6.5/F.6.6)",
        "Exploration. Tens of thousands of generated arcs per run (all flag combinations, radii 1e-3..1e4, rotations beyond a full turn, exactly/barely fitting, too small, zero, negative radii, coincident endpoints) through arc_to_cubic and SVGPath.arcs_to_cubics; every emitted cubic is sampled against the true ellipse (0.03% bound), sweep direction/extent and exact end point are checked. Sampling, not proof.",
        "Trusted: vlib/refsvg/arcref.py (self-tested on hand-computed arcs). End points closer than 1e-6 of the coordinate magnitude are fenced (ill-conditioned for any implementation).",
        "DESIGN.md 2/C12",
    ),
    "C09": (
        "exhaustive small-scope enumeration of command sequences + Hypothesis-generated paths/shapes, each rewrite compared with the input through an independent SVG path interpreter (control polygons / sampled Hausdorff distance / own shape outline formulae)",
        "Exploration. All sequences of <=K commands (K=2 quick, 4 thorough) over the 20 commands on a small lattice are enumerated completely; longer float-valued sequences (incl. near-closing relative loops), and the seven basic shapes with degenerate parameters are sampled. Every public path rewrite is interpreted before/after by an independent implementation of SVG path semantics. Bounded scope + sampling, not proof.",
        "Trusted: vlib/refsvg/geom.py interpreter and arcref (self-tested). Moveto-only subpaths are not compared; a shorthand directly after a zero-length (omitted) arc is fenced as spec-ambiguous; degenerate (zero-size) rect/circle/ellipse are only required to enclose nothing inside their box.",
        "DESIGN.md 2/C09",
    ),
    "C02": (
        "differential rendering: Hypothesis-generated documents are converted and both source and result are evaluated by an independent point-sampling SVG evaluator (vlib/refsvg/render.py: own XML/cascade/transform/use/viewport/clip/compositing semantics, no Skia); ordered paint stack and composited colour compared at points outside the 0.4% edge band",
        "Exploration. Thousands of generated documents per run over the structural grammar (shapes, paths, nested groups, transform lists, defs/use, nested svg viewports, display:none), ~300 sample points each incl. points 2 and 4 epsilon off every source and output edge. Sampling of an infinite input space: finds placement/ordering/instancing errors larger than ~2 epsilon, proves nothing.",
        "Trusted: vlib/refsvg (self-tested on hand-computed scenes); a conversion that raises is a rejection, not a violation. A mismatch that disappears on the polygonal twin of the same document (curves flattened to lines, everything else kept) is attributed to skia-pathops' curve handling (known finding ENGINE, counted in evidence) and not reported; wrapper-logic errors show on the twin too.",
        "DESIGN.md 2/C02",
    ),
    "C03": (
        "differential rendering: Hypothesis-generated documents are converted and both source and result are evaluated by an independent point-sampling SVG evaluator (vlib/refsvg/render.py: own XML/cascade/transform/use/viewport/clip/compositing semantics, no Skia); ordered paint stack and composited colour compared at points outside the 0.4% edge band",
        "Exploration. Generated documents with 1-3 clipPaths (rule-sensitive children: rings, stars, self-intersecting paths; clip-rule per child; transforms on clipPath and children; clipPath clipped by another; clip-path on shapes, groups, use, stacked) compared by differential rendering; output must not mention clips. Sampling, not proof.",
        "Trusted: vlib/refsvg (self-tested on hand-computed scenes); a conversion that raises is a rejection, not a violation. A mismatch that disappears on the polygonal twin of the same document (curves flattened to lines, everything else kept) is attributed to skia-pathops' curve handling (known finding ENGINE, counted in evidence) and not reported; wrapper-logic errors show on the twin too. Fences: clipPathUnits=objectBoundingBox, clip-path on clipPath children, display:none clipPath children.",
        "DESIGN.md 2/C03",
    ),
    "C05": (
        "differential rendering: Hypothesis-generated documents are converted and both source and result are evaluated by an independent point-sampling SVG evaluator (vlib/refsvg/render.py: own XML/cascade/transform/use/viewport/clip/compositing semantics, no Skia); ordered paint stack and composited colour compared at points outside the 0.4% edge band",
        "Exploration. Generated documents with overlapping geometry where shapes, groups, root and use set random subsets of fill/fill-opacity/opacity/fill-rule/display via attribute and/or style (conflicts: style must win); composited RGBA (1.5/255) and paint stack compared. Sampling, not proof.",
        "Trusted: vlib/refsvg (self-tested on hand-computed scenes); a conversion that raises is a rejection, not a violation. A mismatch that disappears on the polygonal twin of the same document (curves flattened to lines, everything else kept) is attributed to skia-pathops' curve handling (known finding ENGINE, counted in evidence) and not reported; wrapper-logic errors show on the twin too. Strokes are not part of this campaign (C04 covers stroke paint/opacity).",
        "DESIGN.md 2/C05",
    ),
}

NOT_YET = "check not built yet in this round (work in progress; see DESIGN.md section 5 for the order of work)"


def main():
    props = [json.loads(l) for l in open(os.path.join(HERE, "properties.jsonl"))]
    checks = []
    na = []
    for p in props:
        pid = p["id"]
        if pid in CLAIMED:
            tech, text, note, ref = CLAIMED[pid]
            checks.append(
                {
                    "property_id": pid,
                    "quick_cmd": f"./check {pid} quick",
                    "thorough_cmd": f"./check {pid} thorough",
                    "evidence_file": f"evidence/{pid}.json",
                    "replay_cmd_template": f"./check {pid} --replay {{path}}",
                    "engine": "vlib",
                    "level_claimed": {"category": "exploration", "text": text, "design_ref": ref},
                    "level_note": note,
                    "technique": tech,
                }
            )
        else:
            na.append({"property_id": pid, "reason": NOT_YET})
    m = {
        "version": 1,
        "setup_cmd": "./check --setup",
        "hooks": {
            "guard": "PICOSVG_VERIF",
            "enable": "no source hooks are needed: picosvg is pure Python and is imported from /repo/src (PYTHONPATH set by ./check); PICOSVG_VERIF=1 is exported by ./check but nothing in /repo reads it",
            "baseline_off_cmd": "cd /repo && /venv/bin/python -m pytest -ra -q -p no:cacheprovider --timeout=900 --continue-on-collection-errors",
            "source_commits": [],
            "add_only": True,
        },
        "engines": [
            {
                "name": "vlib",
                "path": "vlib/",
                "serves_properties": sorted(CLAIMED),
                "kind_free_text": "Hypothesis-driven property-based testing + exhaustive small-scope enumeration, sharded over processes, against independent reference oracles (vlib/refsvg); collect-then-shrink; JSON replay files",
            }
        ],
        "checks": checks,
        "not_applicable": na,
        "notes": "All checks: ./check <id> quick|thorough, VERIF_SEED honoured, exit 0/1/2 = held/violation/harness error. Fix commits in /repo are listed in known_findings.json as fixed entries.",
    }
    json.dump(m, open(os.path.join(HERE, "MANIFEST.json"), "w"), indent=1)
    print(f"MANIFEST.json: {len(checks)} checks, {len(na)} not_applicable")


if __name__ == "__main__":
    main()
