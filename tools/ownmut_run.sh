#!/bin/bash
# ownmut_run.sh <mutation id> [tier] : apply one of ownmut/mutations.json (textual replace) in a private
# worktree, confirm the baseline suite still passes there, run the property's check against it.
set -u
ID="$1"; TIER="${2:-quick}"
cd /verif
W="/tmp/ownmut.$ID.$$"
git -C /repo worktree add --detach "$W" HEAD >/dev/null 2>&1 || { echo "worktree failed"; exit 2; }
trap 'git -C /repo worktree remove --force "$W" >/dev/null 2>&1' EXIT
P=$(python3 - "$ID" "$W" <<'PY'
import json,sys
mid,w=sys.argv[1],sys.argv[2]
m=[x for x in json.load(open('/verif/ownmut/mutations.json')) if x['id']==mid][0]
p=f"{w}/{m['file']}"; s=open(p).read()
if m['old'] not in s: print("NOAPPLY"); sys.exit(0)
open(p,'w').write(s.replace(m['old'],m['new'],1)); print(m['property'])
PY
)
if [ "$P" = "NOAPPLY" ]; then echo "$ID: does not apply"; exit 3; fi
/verif/tools/baseline.sh "$W" > "out/own-$ID.base" 2>&1; b=$?
PICOSVG_SRC="$W/src" VERIF_EVIDENCE_DIR="/verif/out/evidence-mut" ./check "$P" "$TIER" > "out/own-$ID.log" 2>&1; rc=$?
base=$([ $b -eq 0 ] && echo "suite-passes" || echo "SUITE-FAILS($(grep -c 'NOT PASSING' out/own-$ID.base))")
if [ $rc -eq 1 ]; then echo "$ID [$P $TIER] $base: CAUGHT $(grep -m1 '^\[' out/own-$ID.log | cut -c1-120)";
elif [ $rc -eq 0 ]; then echo "$ID [$P $TIER] $base: MISSED"; else echo "$ID [$P $TIER] $base: HARNESS rc=$rc"; fi
