#!/bin/bash
# mutation_run.sh <seeded-id> [tier] [property]  : apply seeded/<id>/patch.diff to /repo, run the check
# of its property (or the given one), undo the patch.  Prints CAUGHT / MISSED.
set -u
ID="$1"; TIER="${2:-quick}"
cd /verif
P="${3:-$(python3 -c "import json;print(json.load(open('seeded/$ID/meta.json'))['property'])")}"
if [ -n "$(git -C /repo status --porcelain)" ]; then echo "/repo not clean"; exit 2; fi
git -C /repo apply "/verif/seeded/$ID/patch.diff" || { echo "$ID: patch does not apply to current /repo HEAD"; exit 3; }
trap 'git -C /repo checkout -- . ; git -C /repo clean -fdq -- src' EXIT
./check "$P" "$TIER" > "out/mut-$ID-$P.log" 2>&1; rc=$?
v=$(grep -c '^VIOLATION' "out/mut-$ID-$P.log")
if [ $rc -eq 1 ]; then echo "$ID [$P $TIER]: CAUGHT ($v violation lines) $(grep -m1 '^\[' out/mut-$ID-$P.log | cut -c1-200)";
elif [ $rc -eq 0 ]; then echo "$ID [$P $TIER]: MISSED"; else echo "$ID [$P $TIER]: HARNESS rc=$rc"; tail -5 "out/mut-$ID-$P.log"; fi
