#!/bin/bash
# every seeded patch (or its patch-rebased.diff) and every own mutation must still apply to /repo HEAD
cd /verif; W=/tmp/applychk.$$; git -C /repo worktree add --detach "$W" HEAD >/dev/null 2>&1; trap 'git -C /repo worktree remove --force "$W" >/dev/null 2>&1' EXIT
bad=0
for dir in seeded seeded2 seeded3 seeded4; do for d in $dir/*/; do id=$(basename $d); p="$d/patch.diff"; [ -f "$d/patch-rebased.diff" ] && p="$d/patch-rebased.diff"
  git -C "$W" apply --check "/verif/$p" 2>/dev/null || { echo "DOES NOT APPLY: $dir/$id"; bad=1; }; done; done
python3 - "$W" <<'PY' || bad=1
import json,sys
w=sys.argv[1]; rc=0
for m in json.load(open('/verif/ownmut/mutations.json')):
    if m['old'] not in open(f"{w}/{m['file']}").read(): print("DOES NOT APPLY: ownmut", m['id']); rc=1
sys.exit(rc)
PY
[ $bad -eq 0 ] && echo "all mutants apply to $(git -C /repo log --format=%h -1)"
