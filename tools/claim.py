#!/usr/bin/env python3
"""claim.py <Cxx> <technique> <level_text> <level_note> [design_ref]  - add/replace an entry in tools/claimed.json and regenerate MANIFEST.json"""
import json, os, subprocess, sys
here = os.path.dirname(os.path.abspath(__file__))
p = os.path.join(here, "claimed.json")
c = json.load(open(p))
pid = sys.argv[1]
c[pid] = {"technique": sys.argv[2], "level_text": sys.argv[3], "level_note": sys.argv[4], "design_ref": sys.argv[5] if len(sys.argv) > 5 else f"DESIGN.md 2/{pid}"}
json.dump(dict(sorted(c.items())), open(p, "w"), indent=1)
subprocess.check_call([sys.executable, os.path.join(here, "mkmanifest.py")])
