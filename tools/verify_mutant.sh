#!/bin/bash
# verify_mutant.sh <dir with patch.diff demo.py meta.json> : confirm in a scratch worktree that
#  (1) patch applies to pristine HEAD~fixes? -> to the ORIGINAL snapshot commit and to current HEAD
#  (2) baseline suite still 356/356 with the patch, (3) demo fails with patch, (4) demo passes without.
set -u
D="$(cd "$1" && pwd)"
BASE="${2:-HEAD}"
W=/tmp/mutverify.$$
git -C /repo worktree add --detach "$W" "$BASE" >/dev/null 2>&1 || { echo "worktree failed"; exit 2; }
trap 'git -C /repo worktree remove --force "$W" >/dev/null 2>&1' EXIT
cd "$W"
run_demo() { ( cd "$W" && PYTHONPATH="$W/src" timeout 300 /venv/bin/python "$D/demo.py" >/tmp/mutverify.$$.log 2>&1 ); }
run_demo; pre=$?
git apply "$D/patch.diff" || { echo "RESULT $D: patch does not apply to $BASE"; exit 1; }
/verif/tools/baseline.sh "$W" >/tmp/mutverify.$$.base 2>&1; b=$?
run_demo; post=$?
echo "RESULT $D: demo_pristine_rc=$pre baseline_rc=$b ($(head -1 /tmp/mutverify.$$.base)) demo_mutated_rc=$post"
rm -f /tmp/mutverify.$$.log /tmp/mutverify.$$.base
[ $pre -eq 0 ] && [ $b -eq 0 ] && [ $post -ne 0 ]
