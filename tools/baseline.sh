#!/bin/bash
# Run the repository's pinned test suite in <dir> (default /repo) and compare with the
# 356 stable-pass tests of /root/.vp/BASELINE.json (copied to tools/stable_pass.txt).
# exit 0 iff every stable-pass test passes.  Usage: tools/baseline.sh [repo_dir]
set -u
DIR="${1:-/repo}"
HERE="$(cd "$(dirname "$0")" && pwd)"
OUT="$(mktemp -d)"
trap 'rm -rf "$OUT"' EXIT
cd "$DIR" || exit 2
# PYTHONPATH makes the worktree's sources win over the editable install of /repo
PICOSVG_VERIF= PYTHONPATH="$DIR/src" /venv/bin/python -m pytest -q -p no:cacheprovider --timeout=900 \
    --continue-on-collection-errors --junitxml="$OUT/j.xml" >"$OUT/log" 2>&1
/venv/bin/python - "$OUT/j.xml" "$HERE/stable_pass.txt" <<'EOF'
import sys, xml.etree.ElementTree as ET
passed=set()
for tc in ET.parse(sys.argv[1]).getroot().iter('testcase'):
    if not any(c.tag in ('failure','error','skipped') for c in tc):
        passed.add(f"{tc.get('classname')}::{tc.get('name')}")
want=[l.strip() for l in open(sys.argv[2]) if l.strip()]
missing=[w for w in want if w not in passed]
print(f"baseline: {len(want)-len(missing)}/{len(want)} stable tests pass")
for m in missing[:20]: print("  NOT PASSING:", m)
sys.exit(1 if missing else 0)
EOF
